(* Run-level invariant of the engine-instance bookkeeping (property C03).

   proofs/EnginesP.v speaks about ONE take of ONE engine type.  Here a run is an arbitrary
   list of calls (pin, requested engine types) of assign_engines (engines/factory.py); the
   statements are about the occupancy table and the instances held by the workers after
   every such run:
     - the shape of the table never changes, each pin occurs at most once per type;
     - the table and the holder map (for each pin the instances its LAST call obtained)
       agree, so two different pins never hold the same (type, instance) pair -- whatever
       the pins and the requested type lists are;
     - with at most as many distinct pins as instances of every type, no call fails;
     - the variant "cache eng_idx per worker, request only the types not used before"
       (assign_engines still frees everything the pin holds) does share an instance. *)
From Coq Require Import ZArith List Bool Lia PeanoNat.
Import ListNotations.
From Inf Require Import base.ListX model.RepexM proofs.RepexP proofs.EnginesP.
Open Scope nat_scope.

(* ------------------------------------------------------------------ one occupancy list *)

(* the pins recorded in an occupancy list, in order *)
Fixpoint vals (l : list (option nat)) : list nat :=
  match l with [] => [] | Some p :: r => p :: vals r | None :: r => vals r end.

Lemma occupied_vals l : occupied l = length (vals l).
Proof.
  unfold occupied. induction l as [|[p|] l IH]; cbn; auto.
Qed.

Lemma In_vals_nth l p : In p (vals l) <-> exists i, nth i l None = Some p.
Proof.
  induction l as [|[q|] l IH]; cbn.
  - split; [tauto|]. intros ([|i] & H); discriminate.
  - rewrite IH. split.
    + intros [->|(i & H)]; [exists 0; reflexivity|exists (S i); exact H].
    + intros ([|i] & H); [injection H; auto|right; eauto].
  - rewrite IH. split.
    + intros (i & H). exists (S i). exact H.
    + intros ([|i] & H); [discriminate|eauto].
Qed.

(* NoDup (vals l) says: every pin occurs at most once in l (free entries excepted) *)
Lemma NoDup_vals_nth l :
  NoDup (vals l) <-> forall i j p, nth i l None = Some p -> nth j l None = Some p -> i = j.
Proof.
  induction l as [|[q|] l IH]; cbn [vals].
  - split; [|constructor]. intros _ [|i] j p H; discriminate.
  - split.
    + intros N. inversion N as [|? ? Nq Nl]; subst. rewrite IH in Nl.
      intros [|i] [|j] p Hi Hj; cbn in Hi, Hj; auto.
      * injection Hi as <-. exfalso. apply Nq. apply In_vals_nth. eauto.
      * injection Hj as <-. exfalso. apply Nq. apply In_vals_nth. eauto.
      * f_equal. eauto.
    + intros H. constructor.
      * intros Hin. apply In_vals_nth in Hin as (j & Hj).
        specialize (H 0 (S j) q eq_refl Hj). discriminate.
      * apply IH. intros i j p Hi Hj. specialize (H (S i) (S j) p Hi Hj). lia.
  - rewrite IH. split.
    + intros H [|i] [|j] p Hi Hj; cbn in Hi, Hj; try discriminate. f_equal. eauto.
    + intros H i j p Hi Hj. specialize (H (S i) (S j) p Hi Hj). lia.
Qed.

Definition free_list (pin : nat) (l : list (option nat)) : list (option nat) :=
  map (fun x => match x with Some p => if p =? pin then None else Some p | None => None end) l.

Arguments free_list : simpl never.

Lemma free_pin_eq pin o : free_pin pin o = map (fun al => (fst al, free_list pin (snd al))) o.
Proof. unfold free_pin. apply map_ext. intros [a l]. reflexivity. Qed.

Lemma vals_free_list pin l : vals (free_list pin l) = filter (fun p => negb (p =? pin)) (vals l).
Proof.
  unfold free_list. induction l as [|[p|] l IH]; cbn; auto.
  destruct (p =? pin); cbn; rewrite IH; reflexivity.
Qed.

Lemma free_list_length pin l : length (free_list pin l) = length l.
Proof. apply map_length. Qed.

Lemma vals_set_nth_In pin p : forall l k,
  In p (vals (set_nth k (Some pin) l)) -> p = pin \/ In p (vals l).
Proof.
  induction l as [|a l IH]; intros [|k] H; cbn in H; try tauto.
  - destruct H as [->|H]; [auto|]. right. destruct a; cbn; auto.
  - destruct a as [q|]; cbn in *.
    + destruct H as [->|H]; [auto|]. apply IH in H. tauto.
    + eauto.
Qed.

Lemma NoDup_vals_take pin : forall l i k,
  first_free i l = Some k -> NoDup (vals l) -> ~ In pin (vals l) ->
  NoDup (vals (set_nth (k - i) (Some pin) l)).
Proof.
  induction l as [|a l IH]; intros i k F N Hn; cbn in F; [discriminate|].
  destruct a as [p|].
  - pose proof (first_free_spec _ _ _ F) as (A & _).
    replace (k - i) with (S (k - S i)) by lia. cbn in *.
    inversion N as [|? ? Np Nl]; subst. constructor.
    + intros Hin. apply vals_set_nth_In in Hin as [->|Hin]; tauto.
    + apply IH; auto.
  - injection F as <-. rewrite Nat.sub_diag. cbn in *. constructor; auto.
Qed.

(* ------------------------------------------------------------------ the table *)

(* number of types and of instances per type *)
Definition shape (o : occ_t) : list (nat * nat) := map (fun al => (fst al, length (snd al))) o.

(* the all-free table of a given shape *)
Definition init_occ (sh : list (nat * nat)) : occ_t :=
  map (fun en => (fst en, repeat (@None nat) (snd en))) sh.

(* each pin occurs at most once in the occupancy list of every engine type *)
Definition OccInv (o : occ_t) : Prop := Forall (fun al => NoDup (vals (snd al))) o.

Lemma OccInv_spec o :
  OccInv o <-> forall a l, In (a, l) o ->
               forall i j p, nth i l None = Some p -> nth j l None = Some p -> i = j.
Proof.
  unfold OccInv. rewrite Forall_forall. split.
  - intros H a l Hin. apply NoDup_vals_nth. exact (H _ Hin).
  - intros H [a l] Hin. apply NoDup_vals_nth. exact (H _ _ Hin).
Qed.

Lemma shape_map_fst o : map fst (shape o) = map fst o.
Proof. unfold shape. rewrite map_map. reflexivity. Qed.

Lemma shape_init sh : shape (init_occ sh) = sh.
Proof.
  unfold shape, init_occ. rewrite map_map. rewrite <- (map_id sh) at 2.
  apply map_ext. intros [e n]. cbn. now rewrite repeat_length.
Qed.

Lemma vals_repeat_None n : vals (repeat None n) = [].
Proof. induction n; cbn; auto. Qed.

Lemma OccInv_init sh : OccInv (init_occ sh).
Proof.
  unfold OccInv, init_occ. rewrite Forall_map. apply Forall_forall. intros [e n] _. cbn.
  rewrite vals_repeat_None. constructor.
Qed.

Lemma holder_init sh e i : holder (init_occ sh) e i = None.
Proof.
  induction sh as [|[a n] sh IH]; cbn; [reflexivity|].
  destruct (a =? e); [|exact IH]. clear. revert i. induction n; intros [|i]; cbn; auto.
Qed.

Lemma shape_free_pin pin o : shape (free_pin pin o) = shape o.
Proof.
  rewrite free_pin_eq. unfold shape. rewrite map_map. apply map_ext. intros [a l]. cbn [fst snd].
  now rewrite free_list_length.
Qed.

(* what one take does to the table *)
Lemma occ_take_struct e pin : forall o o' x,
  occ_take e pin o = (o', x) ->
  (x = None /\ o' = o) \/
  (exists o1 l o2 i, x = Some i /\ o = o1 ++ (e, l) :: o2 /\
                     o' = o1 ++ (e, set_nth i (Some pin) l) :: o2 /\
                     first_free 0 l = Some i /\ ~ In e (map fst o1)).
Proof.
  induction o as [|[a l] r IH]; intros o' x H; cbn in H.
  - injection H as <- <-. auto.
  - destruct (Nat.eqb_spec a e) as [->|Ne].
    + destruct (first_free 0 l) as [k|] eqn:F; injection H as <- <-; [|auto].
      right. exists [], l, r, k. cbn. repeat split; auto.
    + destruct (occ_take e pin r) as [r' y] eqn:T. injection H as <- <-.
      destruct (IH _ _ eq_refl) as [(-> & ->)|(o1 & l1 & o2 & i & -> & -> & -> & F & Hn)]; [auto|].
      right. exists ((a, l) :: o1), l1, o2, i. cbn. repeat split; auto. intros [?|?]; auto.
Qed.

Lemma shape_occ_take e pin o o' x : occ_take e pin o = (o', x) -> shape o' = shape o.
Proof.
  intros H. destruct (occ_take_struct _ _ _ _ _ H) as [(_ & ->)|(o1 & l & o2 & i & _ & -> & -> & _)]; auto.
  unfold shape. rewrite !map_app. cbn. now rewrite set_nth_length.
Qed.

Lemma shape_assign_loop pin : forall names o o' out,
  assign_loop names pin o = (o', out) -> shape o' = shape o.
Proof.
  induction names as [|e r IH]; intros o o' out H; cbn in H.
  - now injection H as <- _.
  - destruct (occ_take e pin o) as [o1 x] eqn:T. destruct (assign_loop r pin o1) as [o2 xs] eqn:L.
    injection H as <- _. rewrite (IH _ _ _ L). eapply shape_occ_take; eauto.
Qed.

Theorem assign_engines_shape o names pin : shape (fst (assign_engines o names pin)) = shape o.
Proof.
  unfold assign_engines. destruct (assign_loop names pin (free_pin pin o)) as [o' out] eqn:L. cbn [fst].
  rewrite (shape_assign_loop _ _ _ _ _ L). apply shape_free_pin.
Qed.

(* a take succeeds when the type exists and its list is not full *)
Lemma occ_take_some e pin : forall o,
  In e (map fst o) ->
  Forall (fun al => fst al = e -> occupied (snd al) < length (snd al)) o ->
  exists o' i, occ_take e pin o = (o', Some i).
Proof.
  induction o as [|[a l] r IH]; intros Hin Hf; cbn in *; [tauto|].
  inversion Hf as [|? ? Ha Hr]; subst. cbn in Ha.
  destruct (Nat.eqb_spec a e) as [->|Ne].
  - destruct (first_free_total l 0 (Ha eq_refl)) as (k & ->). eauto.
  - destruct Hin as [?|Hin]; [contradiction|].
    destruct (IH Hin Hr) as (o' & i & ->). eauto.
Qed.

(* ------------------------------------------------------------------ one call: the invariants *)

Section Entry.
Variable Q : nat -> Prop.     (* the pins allowed in the table *)
Variable n : nat.             (* lower bound for the number of instances of every type *)

Definition entry_ok (al : nat * list (option nat)) : Prop :=
  NoDup (vals (snd al)) /\ (forall p, In p (vals (snd al)) -> Q p) /\ n <= length (snd al).

(* pin is not recorded for any of the types still to be requested *)
Definition absent (pin : nat) (names : list nat) (al : nat * list (option nat)) : Prop :=
  In (fst al) names -> ~ In pin (vals (snd al)).

Lemma free_pin_entry pin o :
  Forall entry_ok o ->
  Forall entry_ok (free_pin pin o) /\ forall names, Forall (absent pin names) (free_pin pin o).
Proof.
  intros H. rewrite free_pin_eq. split.
  - rewrite Forall_map. eapply Forall_impl; [|exact H]. intros [a l] (A & B & C). unfold entry_ok. cbn in *.
    rewrite vals_free_list, free_list_length. repeat split; auto.
    + now apply NoDup_filter.
    + intros p Hp. apply filter_In in Hp as (Hp & _). auto.
  - intros names. rewrite Forall_map. apply Forall_forall. intros [a l] _ _. cbn.
    rewrite vals_free_list. intros Hp. apply filter_In in Hp as (_ & Hp).
    now rewrite Nat.eqb_refl in Hp.
Qed.

Lemma occ_take_entry pin e r o o1 x :
  occ_take e pin o = (o1, x) -> Q pin -> ~ In e r ->
  Forall entry_ok o -> Forall (absent pin (e :: r)) o ->
  Forall entry_ok o1 /\ Forall (absent pin r) o1.
Proof.
  intros H HQ Hr E A.
  assert (W : forall o, Forall (absent pin (e :: r)) o -> Forall (absent pin r) o).
  { intros o0. apply Forall_impl. intros al Ha Hin. apply Ha. now right. }
  destruct (occ_take_struct _ _ _ _ _ H) as [(_ & ->)|(oa & l & ob & i & _ & -> & -> & F & _)]; [auto|].
  apply Forall_app in E as (E1 & E2). inversion E2 as [|? ? (El1 & El2 & El3) E3]; subst.
  apply Forall_app in A as (A1 & A2). inversion A2 as [|? ? Al A3]; subst.
  cbn in *. specialize (Al (or_introl eq_refl)).
  split; apply Forall_app; split; auto; constructor; auto.
  - unfold entry_ok. cbn. rewrite set_nth_length. repeat split; auto.
    + rewrite <- (Nat.sub_0_r i). apply NoDup_vals_take; auto.
    + intros p Hp. apply vals_set_nth_In in Hp as [->|Hp]; auto.
  - intros Hin. cbn in Hin. contradiction.
Qed.

Lemma assign_loop_entry pin : forall names o o' out,
  assign_loop names pin o = (o', out) -> Q pin -> NoDup names ->
  Forall entry_ok o -> Forall (absent pin names) o -> Forall entry_ok o'.
Proof.
  induction names as [|e r IH]; intros o o' out H HQ Nd E A; cbn in H.
  - now injection H as <- _.
  - destruct (occ_take e pin o) as [o1 x] eqn:T. destruct (assign_loop r pin o1) as [o2 xs] eqn:L.
    injection H as <- _. inversion Nd; subst.
    destruct (occ_take_entry _ _ r _ _ _ T) as (E1 & A1); auto.
    eapply IH; eauto.
Qed.

Lemma assign_engines_entry o names pin :
  Q pin -> NoDup names -> Forall entry_ok o -> Forall entry_ok (fst (assign_engines o names pin)).
Proof.
  intros HQ Nd E. unfold assign_engines.
  destruct (assign_loop names pin (free_pin pin o)) as [o' out] eqn:L. cbn.
  destruct (free_pin_entry pin _ E) as (E1 & A1).
  eapply assign_loop_entry; eauto.
Qed.

End Entry.

Lemma OccInv_entry o : OccInv o <-> Forall (entry_ok (fun _ => True) 0) o.
Proof.
  unfold OccInv. split; apply Forall_impl; intros al; unfold entry_ok.
  - intros H. repeat split; auto. lia.
  - tauto.
Qed.

(* one call keeps the invariant; the request list of the code is list(set(...)) *)
Theorem assign_engines_OccInv o names pin :
  OccInv o -> NoDup names -> OccInv (fst (assign_engines o names pin)).
Proof.
  intros H Nd. apply OccInv_entry. apply assign_engines_entry; auto. now apply OccInv_entry.
Qed.

(* the hypothesis on the request list is needed: asking twice for the same type marks two
   instances of it with the pin *)
Lemma OccInv_needs_nodup :
  exists o names pin, OccInv o /\ ~ OccInv (fst (assign_engines o names pin)).
Proof.
  exists (init_occ [(0, 2)]), [0; 0], 0. split; [apply OccInv_init|].
  vm_compute. intros H. inversion H as [|? ? N _]; subst. cbn in N.
  inversion N as [|? ? Hn _]; subst. apply Hn. now left.
Qed.

(* ------------------------------------------------------------------ one call: who holds what *)

Lemma pair_dec (x y : nat * option nat) : {x = y} + {x <> y}.
Proof. decide equality; [decide equality|]; apply Nat.eq_dec. Qed.

Lemma assign_loop_holder pin : forall names o o' out,
  assign_loop names pin o = (o', out) ->
  (forall e i, In (e, Some i) out -> holder o' e i = Some pin) /\
  (forall e i, ~ In (e, Some i) out -> holder o' e i = holder o e i).
Proof.
  induction names as [|e r IH]; intros o o' out H; cbn in H.
  - injection H as <- <-. split; [intros ? ? []|auto].
  - destruct (occ_take e pin o) as [o1 x] eqn:T. destruct (assign_loop r pin o1) as [o2 xs] eqn:L.
    injection H as <- <-. destruct (IH _ _ _ L) as (I1 & I2). split.
    + intros e' i' Hin. destruct (in_dec pair_dec (e', Some i') xs) as [Hx|Hx]; [auto|].
      destruct Hin as [Heq|Hin]; [|contradiction]. injection Heq as -> ->.
      rewrite I2 by assumption. now destruct (occ_take_spec _ _ _ _ _ T) as (_ & _ & C & _).
    + intros e' i' Hn. rewrite I2 by (intros Hx; apply Hn; now right).
      destruct x as [k|].
      * destruct (occ_take_spec _ _ _ _ _ T) as (_ & _ & _ & D). apply D.
        intros Heq. apply Hn. left. now injection Heq as -> ->.
      * destruct (occ_take_struct _ _ _ _ _ T) as [(_ & ->)|(? & ? & ? & ? & ? & _)]; [reflexivity|discriminate].
Qed.

Lemma assign_loop_others pin p : p <> pin -> forall names o o' out,
  assign_loop names pin o = (o', out) ->
  forall e i, holder o' e i = Some p <-> holder o e i = Some p.
Proof.
  intros Hp. induction names as [|e r IH]; intros o o' out H e' i'; cbn in H.
  - injection H as <- _. tauto.
  - destruct (occ_take e pin o) as [o1 x] eqn:T. destruct (assign_loop r pin o1) as [o2 xs] eqn:L.
    injection H as <- _. rewrite (IH _ _ _ L). destruct x as [k|].
    + destruct (occ_take_spec _ _ _ _ _ T) as (A & _ & C & D).
      destruct (pair_dec (e', Some i') (e, Some k)) as [Heq|Hne].
      * injection Heq as -> ->. rewrite A, C. split; [intros [= ?]; congruence|discriminate].
      * rewrite D; [tauto|]. intros Heq. apply Hne. now injection Heq as -> ->.
    + destruct (occ_take_struct _ _ _ _ _ T) as [(_ & ->)|(? & ? & ? & ? & ? & _)]; [tauto|discriminate].
Qed.

(* after a call the instances handed to pin, and only those, are marked with pin *)
Theorem assign_engines_own o names pin o' out :
  assign_engines o names pin = (o', out) ->
  forall e i, holder o' e i = Some pin <-> In (e, Some i) out.
Proof.
  unfold assign_engines. intros H e i. destruct (assign_loop_holder _ _ _ _ _ H) as (A & B). split; [|auto].
  intros Hh. destruct (in_dec pair_dec (e, Some i) out) as [|Hn]; [assumption|exfalso].
  rewrite B, holder_free_pin in Hh by assumption.
  destruct (holder o e i) as [q|]; [|discriminate].
  destruct (Nat.eqb_spec q pin); [discriminate|congruence].
Qed.

(* the instances held by the other pins are exactly the same before and after the call *)
Theorem assign_engines_others o names pin o' out :
  assign_engines o names pin = (o', out) ->
  forall p e i, p <> pin -> (holder o' e i = Some p <-> holder o e i = Some p).
Proof.
  unfold assign_engines. intros H p e i Hp. rewrite (assign_loop_others _ _ Hp _ _ _ _ H).
  rewrite holder_free_pin. destruct (holder o e i) as [q|]; [|tauto].
  destruct (Nat.eqb_spec q pin) as [->|]; [|tauto]. split; [discriminate|congruence].
Qed.

(* an instance handed out was free or held by the caller itself *)
Theorem assign_engines_was_free o names pin o' out :
  assign_engines o names pin = (o', out) ->
  forall e i p, In (e, Some i) out -> holder o e i = Some p -> p = pin.
Proof.
  intros H e i p Hin Hh. destruct (Nat.eq_dec p pin) as [|Hp]; [assumption|exfalso].
  apply (assign_engines_others _ _ _ _ _ H p e i Hp) in Hh.
  apply (assign_engines_own _ _ _ _ _ H) in Hin. congruence.
Qed.

(* ------------------------------------------------------------------ runs *)

Definition call := (nat * list nat)%type.                       (* (pin, requested types) *)
Definition log_t := list (nat * list (nat * option nat)).       (* (pin, instances handed out) *)

Fixpoint run_assign (o : occ_t) (calls : list call) : occ_t * log_t :=
  match calls with
  | [] => (o, [])
  | c :: r => let '(o1, out) := assign_engines o (snd c) (fst c) in
              let '(o2, outs) := run_assign o1 r in (o2, (fst c, out) :: outs)
  end.

(* the holder map: what the LAST call of pin obtained (its earlier instances were released
   by that call) *)
Definition held (log : log_t) (pin : nat) : list (nat * option nat) :=
  match find (fun c => fst c =? pin) (rev log) with Some c => snd c | None => [] end.

Lemma held_snoc log q out p : held (log ++ [(q, out)]) p = if q =? p then out else held log p.
Proof. unfold held. rewrite rev_app_distr. cbn. destruct (q =? p); reflexivity. Qed.

Lemma run_assign_snoc c : forall calls o,
  run_assign o (calls ++ [c]) =
  (fst (assign_engines (fst (run_assign o calls)) (snd c) (fst c)),
   snd (run_assign o calls) ++ [(fst c, snd (assign_engines (fst (run_assign o calls)) (snd c) (fst c)))]).
Proof.
  induction calls as [|d r IH]; intros o; cbn [app run_assign].
  - cbn [fst snd]. destruct (assign_engines o (snd c) (fst c)); reflexivity.
  - destruct (assign_engines o (snd d) (fst d)) as [oa outa]. rewrite IH.
    destruct (run_assign oa r) as [o1 l1]. cbn [fst snd].
    destruct (assign_engines o1 (snd c) (fst c)). reflexivity.
Qed.

Lemma run_assign_log_pins : forall calls o, map fst (snd (run_assign o calls)) = map fst calls.
Proof.
  induction calls as [|c r IH]; intros o; cbn [run_assign]; [reflexivity|].
  destruct (assign_engines o (snd c) (fst c)) as [o1 out]. specialize (IH o1).
  destruct (run_assign o1 r) as [o2 outs]. cbn in *. now rewrite IH.
Qed.

(* the log of a prefix is the prefix of the log *)
Lemma run_assign_firstn k : forall calls o,
  snd (run_assign o (firstn k calls)) = firstn k (snd (run_assign o calls)).
Proof.
  induction k as [|k IH]; intros [|c r] o; cbn [firstn run_assign]; try reflexivity.
  destruct (assign_engines o (snd c) (fst c)) as [o1 out]. specialize (IH r o1).
  destruct (run_assign o1 (firstn k r)) as [oa la]. destruct (run_assign o1 r) as [ob lb].
  cbn [snd firstn] in *. now rewrite IH.
Qed.

(* shape: never changes, whatever the calls *)
Theorem run_assign_shape : forall calls o, shape (fst (run_assign o calls)) = shape o.
Proof.
  induction calls as [|c r IH]; intros o; cbn [run_assign]; [reflexivity|].
  pose proof (assign_engines_shape o (snd c) (fst c)) as S.
  destruct (assign_engines o (snd c) (fst c)) as [o1 out]. specialize (IH o1).
  destruct (run_assign o1 r) as [o2 outs]. cbn [fst] in *. congruence.
Qed.

(* the request lists of the code are duplicate-free: unique_eng_names = list(set(...)) *)
Definition calls_nodup (calls : list call) : Prop := Forall (fun c => NoDup (snd c)) calls.

Theorem run_assign_OccInv : forall calls o,
  OccInv o -> calls_nodup calls -> OccInv (fst (run_assign o calls)).
Proof.
  induction calls as [|c r IH]; intros o I Nd; cbn [run_assign]; [assumption|].
  inversion Nd; subst.
  pose proof (assign_engines_OccInv o (snd c) (fst c) I) as S.
  destruct (assign_engines o (snd c) (fst c)) as [o1 out]. specialize (IH o1).
  destruct (run_assign o1 r) as [o2 outs]. cbn [fst] in *. auto.
Qed.

Lemma calls_nodup_firstn k calls : calls_nodup calls -> calls_nodup (firstn k calls).
Proof.
  unfold calls_nodup. rewrite !Forall_forall. intros H c Hc. apply H. eapply firstn_In; eauto.
Qed.

(* every prefix of a run keeps the invariant and the shape *)
Theorem run_assign_prefix_OccInv o calls k :
  OccInv o -> calls_nodup calls ->
  OccInv (fst (run_assign o (firstn k calls))) /\ shape (fst (run_assign o (firstn k calls))) = shape o.
Proof.
  intros I Nd. split; [|apply run_assign_shape].
  apply run_assign_OccInv; auto. now apply calls_nodup_firstn.
Qed.

Corollary run_assign_prefix_OccInv_init sh calls k :
  calls_nodup calls ->
  OccInv (fst (run_assign (init_occ sh) (firstn k calls))) /\
  shape (fst (run_assign (init_occ sh) (firstn k calls))) = sh.
Proof.
  intros Nd. destruct (run_assign_prefix_OccInv (init_occ sh) calls k (OccInv_init sh) Nd) as (A & B).
  split; [assumption|]. now rewrite B, shape_init.
Qed.

(* table and holder map agree: whatever a pin holds is marked with that pin ... *)
Theorem run_held_marked : forall calls o o' log,
  run_assign o calls = (o', log) ->
  forall p e i, In (e, Some i) (held log p) -> holder o' e i = Some p.
Proof.
  induction calls as [|c r IH] using rev_ind; intros o o' log H p e i Hin.
  - cbn in H. injection H as <- <-. destruct Hin.
  - rewrite run_assign_snoc in H. destruct (run_assign o r) as [o1 l1] eqn:R. cbn [fst snd] in H.
    destruct (assign_engines o1 (snd c) (fst c)) as [o2 out] eqn:A. injection H as <- <-.
    rewrite held_snoc in Hin. destruct (Nat.eqb_spec (fst c) p) as [<-|Hp].
    + now apply (assign_engines_own _ _ _ _ _ A).
    + apply (assign_engines_others _ _ _ _ _ A); [congruence|]. eapply IH; eauto.
Qed.

(* ... and whatever is marked with a pin is held by it, or the pin never called and the mark
   was in the table from the start *)
Theorem run_marked_held : forall calls o o' log,
  run_assign o calls = (o', log) ->
  forall p e i, holder o' e i = Some p ->
  In (e, Some i) (held log p) \/ (~ In p (map fst calls) /\ holder o e i = Some p).
Proof.
  induction calls as [|c r IH] using rev_ind; intros o o' log H p e i Hh.
  - cbn in H. injection H as <- <-. right. auto.
  - rewrite run_assign_snoc in H. destruct (run_assign o r) as [o1 l1] eqn:R. cbn [fst snd] in H.
    destruct (assign_engines o1 (snd c) (fst c)) as [o2 out] eqn:A. injection H as <- <-.
    rewrite held_snoc. destruct (Nat.eqb_spec (fst c) p) as [<-|Hp].
    + left. now apply (assign_engines_own _ _ _ _ _ A).
    + apply (assign_engines_others _ _ _ _ _ A) in Hh; [|congruence].
      destruct (IH _ _ _ R _ _ _ Hh) as [?|(Hn & Ho)]; [auto|right]. split; [|assumption].
      rewrite map_app, in_app_iff. cbn. tauto.
Qed.

(* from the all-free table the two coincide *)
Theorem run_table_is_holder_map sh calls o' log :
  run_assign (init_occ sh) calls = (o', log) ->
  forall p e i, holder o' e i = Some p <-> In (e, Some i) (held log p).
Proof.
  intros H p e i. split.
  - intros Hh. destruct (run_marked_held _ _ _ _ H _ _ _ Hh) as [?|(_ & Hi)]; [assumption|].
    rewrite holder_init in Hi. discriminate.
  - eapply run_held_marked; eauto.
Qed.

(* MAIN: no two in-flight jobs share an engine instance.  Any starting table, any pins, any
   request lists (changing from call to call, with duplicates, with unknown types). *)
Theorem run_no_shared_instance o calls o' log :
  run_assign o calls = (o', log) ->
  forall p q e i, In (e, Some i) (held log p) -> In (e, Some i) (held log q) -> p = q.
Proof.
  intros H p q e i Hp Hq.
  pose proof (run_held_marked _ _ _ _ H _ _ _ Hp). pose proof (run_held_marked _ _ _ _ H _ _ _ Hq).
  congruence.
Qed.

(* the same at every moment of the run *)
Corollary run_no_shared_instance_prefix o calls k p q e i :
  In (e, Some i) (held (firstn k (snd (run_assign o calls))) p) ->
  In (e, Some i) (held (firstn k (snd (run_assign o calls))) q) -> p = q.
Proof.
  rewrite <- run_assign_firstn. destruct (run_assign o (firstn k calls)) as [o' log] eqn:R. cbn [snd].
  eapply run_no_shared_instance; eauto.
Qed.

(* ------------------------------------------------------------------ availability *)

(* the requests of a run: duplicate-free lists of engine types that exist in the table *)
Definition calls_wf (keys : list nat) (calls : list call) : Prop :=
  Forall (fun c => NoDup (snd c) /\ incl (snd c) keys) calls.

Lemma map_fst_occ_take e pin o o' x : occ_take e pin o = (o', x) -> map fst o' = map fst o.
Proof. intros H. rewrite <- !shape_map_fst. now rewrite (shape_occ_take _ _ _ _ _ H). Qed.

Lemma assign_loop_available pins pin : NoDup pins -> In pin pins -> forall names o o' out,
  assign_loop names pin o = (o', out) -> NoDup names -> incl names (map fst o) ->
  Forall (entry_ok (fun p => In p pins) (length pins)) o -> Forall (absent pin names) o ->
  forall e x, In (e, x) out -> x <> None.
Proof.
  intros Np Hpin. induction names as [|e r IH]; intros o o' out H Nd Hk E A e' x' Hin; cbn in H.
  - injection H as _ <-. destruct Hin.
  - destruct (occ_take e pin o) as [o1 x] eqn:T. destruct (assign_loop r pin o1) as [o2 xs] eqn:L.
    injection H as _ <-. inversion Nd; subst.
    assert (Hsome : exists o1' k, occ_take e pin o = (o1', Some k)).
    { apply occ_take_some; [apply Hk; now left|].
      rewrite Forall_forall in E, A |- *. intros [a l] Hal Ha. cbn [fst snd] in *. subst a.
      destruct (E _ Hal) as (E1 & E2 & E3). cbn [fst snd] in *.
      specialize (A _ Hal (or_introl eq_refl)). cbn [fst snd] in A.
      rewrite occupied_vals.
      assert (length (pin :: vals l) <= length pins).
      { apply NoDup_incl_length; [constructor; auto|]. intros p [<-|Hp]; auto. }
      cbn in *. lia. }
    destruct Hsome as (o1' & k & T'). rewrite T in T'. injection T' as _ ->.
    destruct Hin as [Heq|Hin]; [injection Heq as _ <-; discriminate|].
    destruct (occ_take_entry (fun p => In p pins) (length pins) pin e r _ _ _ T) as (E1 & A1); auto.
    eapply (IH _ _ _ L); eauto.
    rewrite (map_fst_occ_take _ _ _ _ _ T). intros y Hy. apply Hk. now right.
Qed.

Lemma assign_engines_available pins pin o names o' out :
  NoDup pins -> In pin pins -> assign_engines o names pin = (o', out) ->
  NoDup names -> incl names (map fst o) ->
  Forall (entry_ok (fun p => In p pins) (length pins)) o ->
  forall e x, In (e, x) out -> x <> None.
Proof.
  unfold assign_engines. intros Np Hpin H Nd Hk E.
  destruct (free_pin_entry _ _ pin _ E) as (E1 & A1).
  assert (Hk' : incl names (map fst (free_pin pin o))).
  { rewrite <- shape_map_fst, shape_free_pin, shape_map_fst. assumption. }
  exact (assign_loop_available pins pin Np Hpin names _ _ _ H Nd Hk' E1 (A1 names)).
Qed.

Theorem run_assign_available_gen pins : NoDup pins -> forall calls o,
  incl (map fst calls) pins ->
  Forall (entry_ok (fun p => In p pins) (length pins)) o ->
  calls_wf (map fst o) calls ->
  forall pin out e x, In (pin, out) (snd (run_assign o calls)) -> In (e, x) out -> x <> None.
Proof.
  intros Np. induction calls as [|c r IH]; intros o Hp E Wf pin out e x Hlog Hin; cbn [run_assign] in Hlog.
  - destruct Hlog.
  - inversion Wf as [|? ? (Nd & Hk) Wr]; subst.
    assert (Hc : In (fst c) pins) by (apply Hp; now left).
    pose proof (assign_engines_entry _ _ o (snd c) (fst c) Hc Nd E) as E1.
    pose proof (assign_engines_shape o (snd c) (fst c)) as S1.
    destruct (assign_engines o (snd c) (fst c)) as [o1 out1] eqn:A. cbn [fst] in *.
    specialize (IH o1). destruct (run_assign o1 r) as [o2 outs]. cbn [snd] in *.
    destruct Hlog as [Heq|Hlog].
    + injection Heq as _ <-. eapply (assign_engines_available pins); eauto.
    + eapply IH; eauto.
      * intros y Hy. apply Hp. now right.
      * rewrite <- shape_map_fst, S1, shape_map_fst. assumption.
Qed.

(* from the all-free table: with no more distinct pins than instances of every type, and
   requests for existing types, "Did not find a free engine" never happens *)
Theorem run_assign_available sh calls :
  calls_wf (map fst sh) calls ->
  Forall (fun en => length (nodup Nat.eq_dec (map fst calls)) <= snd en) sh ->
  forall pin out e x, In (pin, out) (snd (run_assign (init_occ sh) calls)) -> In (e, x) out -> x <> None.
Proof.
  intros Wf Hn. apply (run_assign_available_gen (nodup Nat.eq_dec (map fst calls))).
  - apply NoDup_nodup.
  - intros p Hp. now apply nodup_In.
  - unfold init_occ. rewrite Forall_map. eapply Forall_impl; [|exact Hn].
    intros [a k] Hk. unfold entry_ok. cbn in *. rewrite vals_repeat_None, repeat_length.
    repeat split; [constructor|intros ? []|assumption].
  - rewrite <- shape_map_fst, shape_init. assumption.
Qed.

(* ------------------------------------------------------------------ the wrong variant *)

(* Seeded regression: prep_md_items keeps eng_idx per worker and only asks assign_engines for
   the engine types the worker has not used so far (no call at all when there is none);
   assign_engines itself is unchanged and still frees EVERY instance recorded for the pin.
   The job then runs on eng_idx[eng] for each of its types.
   (An unsuccessful take is cached as None here; in the code the run stops with a KeyError.) *)
Definition cache_t := list (nat * list (nat * option nat)).     (* pin -> eng_idx, newest first *)

Definition cache_get (c : cache_t) (pin : nat) : list (nat * option nat) :=
  match find (fun x => fst x =? pin) c with Some x => snd x | None => [] end.

Definition idx_get (m : list (nat * option nat)) (e : nat) : option nat :=
  match find (fun x => fst x =? e) m with Some x => snd x | None => None end.

Definition cached_call (o : occ_t) (c : cache_t) (cl : call)
  : occ_t * cache_t * list (nat * option nat) :=
  match filter (fun e => negb (existsb (fun x => fst x =? e) (cache_get c (fst cl)))) (snd cl) with
  | [] => (o, c, map (fun e => (e, idx_get (cache_get c (fst cl)) e)) (snd cl))
  | req =>
      (fst (assign_engines o req (fst cl)),
       (fst cl, cache_get c (fst cl) ++ snd (assign_engines o req (fst cl))) :: c,
       map (fun e => (e, idx_get (cache_get c (fst cl) ++ snd (assign_engines o req (fst cl))) e))
           (snd cl))
  end.

Fixpoint run_assign_cached (o : occ_t) (c : cache_t) (calls : list call) : occ_t * log_t :=
  match calls with
  | [] => (o, [])
  | cl :: r => let '(o1, c1, used) := cached_call o c cl in
               let '(o2, l) := run_assign_cached o1 c1 r in (o2, (fst cl, used) :: l)
  end.

(* two engine types with two instances each; worker 0 runs a job on type 0, then a job on
   types 0 and 1 (a zero swap); worker 1 then asks for type 0 *)
Definition bad_shape : list (nat * nat) := [(0, 2); (1, 2)].
Definition bad_calls : list call := [(0, [0]); (0, [0; 1]); (1, [0])].

(* ... and gets instance 0 of type 0, on which worker 0 is still running: the second call of
   worker 0 requested type 1 only, and that call freed (0, 0) in the table *)
Theorem cached_variant_shares :
  exists sh calls p q e i,
    p <> q /\
    In (e, Some i) (held (snd (run_assign_cached (init_occ sh) [] calls)) p) /\
    In (e, Some i) (held (snd (run_assign_cached (init_occ sh) [] calls)) q) /\
    holder (fst (run_assign_cached (init_occ sh) [] calls)) e i <> Some p.
Proof.
  exists bad_shape, bad_calls, 0, 1, 0, 0. vm_compute.
  repeat split; [discriminate|auto|auto|discriminate].
Qed.

(* the real assign_engines on the same calls (worker 1 gets instance 1) *)
Example run_assign_same_calls :
  run_assign (init_occ bad_shape) bad_calls =
  ([(0, [Some 0; Some 1]); (1, [Some 0; None])],
   [(0, [(0, Some 0)]); (0, [(0, Some 0); (1, Some 0)]); (1, [(0, Some 1)])]).
Proof. vm_compute. reflexivity. Qed.

Print Assumptions run_assign_prefix_OccInv.
Print Assumptions run_assign_prefix_OccInv_init.
Print Assumptions run_assign_shape.
Print Assumptions assign_engines_own.
Print Assumptions assign_engines_others.
Print Assumptions run_table_is_holder_map.
Print Assumptions run_no_shared_instance.
Print Assumptions run_no_shared_instance_prefix.
Print Assumptions run_assign_available.
Print Assumptions cached_variant_shares.
Print Assumptions run_assign_same_calls.
Print Assumptions run_held_marked.
Print Assumptions run_marked_held.
Print Assumptions run_assign_available_gen.
Print Assumptions OccInv_needs_nodup.
