(* perm > 0 iff a perfect matching exists (non-negative matrices), and hence
   Pspec i j > 0 iff the pair (i, j) lies on a perfect matching: the meaning of the
   certificates of property C05 in terms of the exact probabilities of property C02. *)
From Coq Require Import QArith List Arith Lia.
Import ListNotations.
From Inf Require Import spec.PermS proofs.PermSpecP.
Open Scope Q_scope.

Definition fmatching (n : nat) (M : mat) (sg : nat -> nat) : Prop :=
  (forall i, (i < n)%nat -> (sg i < n)%nat /\ 0 < M i (sg i)) /\
  (forall i i', (i < n)%nat -> (i' < n)%nat -> sg i = sg i' -> i = i').

Definition nonneg (n : nat) (M : mat) : Prop := forall a b, (a < n)%nat -> (b < n)%nat -> 0 <= M a b.

Lemma qsum_ge_term n f k : (forall i, (i < n)%nat -> 0 <= f i) -> (k < n)%nat -> f k <= qsum n f.
Proof.
  induction n as [|n IH]; intros H Hk; [lia|]. rewrite qsum_S.
  destruct (Nat.eq_dec k n) as [->|N].
  - setoid_replace (f n) with (0 + f n) at 1 by ring. apply Qplus_le_compat; [|apply Qle_refl].
    apply qsum_nonneg. intros i Hi. apply H. lia.
  - setoid_replace (f k) with (f k + 0) by ring. apply Qplus_le_compat.
    + apply IH; [intros i Hi; apply H; lia|lia].
    + apply H. lia.
Qed.

Lemma qsum_pos_term n f : (forall i, (i < n)%nat -> 0 <= f i) -> 0 < qsum n f -> exists k, (k < n)%nat /\ 0 < f k.
Proof.
  induction n as [|n IH]; intros H Hp; [cbn in Hp; discriminate|]. rewrite qsum_S in Hp.
  destruct (Qlt_le_dec 0 (f n)) as [Hn|Hn]; [exists n; split; [lia|exact Hn]|].
  assert (E : f n == 0) by (apply Qle_antisym; [exact Hn|apply H; lia]).
  rewrite E, Qplus_0_r in Hp. destruct (IH (fun i Hi => H i ltac:(lia)) Hp) as (k & Hk & Hf).
  exists k. split; [lia|exact Hf].
Qed.

Lemma skip_unskip j b : b <> j -> skip j (unskip j b) = b.
Proof.
  intros N. unfold skip, unskip.
  destruct (Nat.ltb_spec b j) as [H|H].
  - destruct (Nat.ltb_spec b j); lia.
  - destruct (Nat.ltb_spec (pred b) j); lia.
Qed.

Lemma unskip_lt j b k : (j <= k)%nat -> (b < S k)%nat -> b <> j -> (unskip j b < k)%nat.
Proof. intros Hj Hb N. unfold unskip. destruct (Nat.ltb_spec b j); lia. Qed.

Lemma unskip_inj j b b' : b <> j -> b' <> j -> unskip j b = unskip j b' -> b = b'.
Proof. intros N N' E. rewrite <- (skip_unskip j b N), <- (skip_unskip j b' N'). now rewrite E. Qed.

Lemma minor_nonneg k i j M : nonneg (S k) M -> nonneg k (minor i j M).
Proof. intros H a b Ha Hb. unfold minor. apply H; apply skip_lt_S; assumption. Qed.

Theorem perm_pos_of_matching : forall n M, nonneg n M -> (exists sg, fmatching n M sg) -> 0 < perm n M.
Proof.
  induction n as [|k IH]; intros M Hn (sg & Hm & Hinj); [reflexivity|].
  rewrite perm_S.
  destruct (Hm 0%nat ltac:(lia)) as (Hj0 & Hp0). set (j0 := sg 0%nat) in *.
  assert (Hminor : 0 < perm k (minor 0 j0 M)).
  { apply IH; [apply minor_nonneg; exact Hn|].
    exists (fun a => unskip j0 (sg (S a))). split.
    - intros a Ha. destruct (Hm (S a) ltac:(lia)) as (Hb & Hpos).
      assert (Nb : sg (S a) <> j0). { intros E. specialize (Hinj (S a) 0%nat ltac:(lia) ltac:(lia) E). lia. }
      split; [apply unskip_lt; [lia|exact Hb|exact Nb]|].
      unfold minor. rewrite skip_0, skip_unskip by exact Nb. exact Hpos.
    - intros a a' Ha Ha' E.
      assert (Nb : sg (S a) <> j0). { intros E0. specialize (Hinj (S a) 0%nat ltac:(lia) ltac:(lia) E0). lia. }
      assert (Nb' : sg (S a') <> j0). { intros E0. specialize (Hinj (S a') 0%nat ltac:(lia) ltac:(lia) E0). lia. }
      apply unskip_inj in E; [|exact Nb|exact Nb'].
      specialize (Hinj (S a) (S a') ltac:(lia) ltac:(lia) E). lia. }
  eapply Qlt_le_trans; [|apply (qsum_ge_term (S k) _ j0)].
  - cbv beta. apply Qmult_lt_0_compat; assumption.
  - intros i Hi. cbv beta. apply Qmult_le_0_compat; [apply Hn; lia|].
    apply perm_nonneg. intros a b Ha Hb. apply (minor_nonneg k 0 i M Hn); assumption.
  - exact Hj0.
Qed.

Theorem matching_of_perm_pos : forall n M, nonneg n M -> 0 < perm n M -> exists sg, fmatching n M sg.
Proof.
  induction n as [|k IH]; intros M Hn Hp.
  - exists (fun i => i). split; intros; lia.
  - rewrite perm_S in Hp.
    assert (Hnn : forall i, (i < S k)%nat -> 0 <= (fun j : nat => M 0%nat j * perm k (minor 0 j M)) i).
    { intros i Hi. cbv beta. apply Qmult_le_0_compat; [apply Hn; lia|].
      apply perm_nonneg. intros a b Ha Hb. apply (minor_nonneg k 0 i M Hn); assumption. }
    destruct (qsum_pos_term (S k) (fun j : nat => M 0%nat j * perm k (minor 0 j M)) Hnn Hp) as (j0 & Hj0 & Hterm).
    cbv beta in Hterm.
    assert (H0 : 0 <= M 0%nat j0) by (apply Hn; lia).
    assert (Hm0 : 0 < M 0%nat j0).
    { destruct (Qlt_le_dec 0 (M 0%nat j0)) as [|Hle]; [assumption|].
      assert (E : M 0%nat j0 == 0) by (apply Qle_antisym; assumption). rewrite E, Qmult_0_l in Hterm. discriminate. }
    assert (Hpm : 0 < perm k (minor 0 j0 M)).
    { destruct (Qlt_le_dec 0 (perm k (minor 0 j0 M))) as [|Hle]; [assumption|].
      assert (E : perm k (minor 0 j0 M) == 0).
      { apply Qle_antisym; [exact Hle|]. apply perm_nonneg. intros a b Ha Hb. apply (minor_nonneg k 0 j0 M Hn); assumption. }
      rewrite E, Qmult_0_r in Hterm. discriminate. }
    destruct (IH (minor 0 j0 M) (minor_nonneg k 0 j0 M Hn) Hpm) as (tau & Ht & Tinj).
    exists (fun i => match i with O => j0 | S a => skip j0 (tau a) end). split.
    + intros [|a] Hi; [split; assumption|].
      destruct (Ht a ltac:(lia)) as (Hb & Hpos). split; [apply skip_lt_S; exact Hb|].
      unfold minor in Hpos. rewrite skip_0 in Hpos. exact Hpos.
    + intros [|a] [|a'] Hi Hi' E; auto.
      * exfalso. symmetry in E. exact (skip_neq _ _ E).
      * exfalso. exact (skip_neq _ _ E).
      * f_equal. apply (Tinj a a'); try lia.
        rewrite <- (unskip_skip j0 (tau a)), <- (unskip_skip j0 (tau a')). now rewrite E.
Qed.

Theorem perm_pos_iff_matching n M : nonneg n M -> (0 < perm n M <-> exists sg, fmatching n M sg).
Proof. intros H. split; [apply matching_of_perm_pos|apply perm_pos_of_matching]; exact H. Qed.

(* the exact probability of a pair is positive iff the pair lies on a perfect matching *)
Theorem Pspec_pos_iff_on_matching n M i j :
  nonneg (S n) M -> 0 < perm (S n) M -> (i <= n)%nat -> (j <= n)%nat ->
  (0 < Pspec (S n) M i j <-> 0 < M i j /\ exists sg, fmatching n (minor i j M) sg).
Proof.
  intros Hn Hp Hi Hj. unfold Pspec. cbn [pred].
  assert (Hm : nonneg n (minor i j M)) by (apply minor_nonneg; exact Hn).
  assert (H0 : 0 <= M i j) by (apply Hn; lia).
  assert (H1 : 0 <= perm n (minor i j M)) by (apply perm_nonneg; exact Hm).
  split.
  - intros H.
    assert (Hnum : 0 < M i j * perm n (minor i j M)).
    { destruct (Qlt_le_dec 0 (M i j * perm n (minor i j M))) as [|Hle]; [assumption|]. exfalso.
      assert (E : M i j * perm n (minor i j M) == 0) by (apply Qle_antisym; [exact Hle|apply Qmult_le_0_compat; assumption]).
      rewrite E in H. unfold Qdiv in H. rewrite Qmult_0_l in H. discriminate. }
    assert (A : 0 < M i j).
    { destruct (Qlt_le_dec 0 (M i j)) as [|Hle]; [assumption|]. exfalso.
      assert (E : M i j == 0) by (apply Qle_antisym; assumption). rewrite E, Qmult_0_l in Hnum. discriminate. }
    assert (B : 0 < perm n (minor i j M)).
    { destruct (Qlt_le_dec 0 (perm n (minor i j M))) as [|Hle]; [assumption|]. exfalso.
      assert (E : perm n (minor i j M) == 0) by (apply Qle_antisym; assumption). rewrite E, Qmult_0_r in Hnum. discriminate. }
    split; [exact A|]. now apply matching_of_perm_pos.
  - intros (A & B). apply Qlt_shift_div_l; [exact Hp|]. rewrite Qmult_0_l.
    apply Qmult_lt_0_compat; [exact A|]. now apply perm_pos_of_matching.
Qed.
