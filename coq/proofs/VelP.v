(* Proofs about the velocity-regeneration model (property C16). *)
From Coq Require Import ZArith QArith Qabs Qfield List Bool Lia.
Import ListNotations.
From Inf Require Import gen.ParamsC16 model.VelM.
Open Scope Q_scope.

(* ------------------------------------------------------------------ basics *)
Lemma nq_eq x : nq x == x.
Proof. apply Qred_correct. Qed.

Lemma sumQ_cons x r : sumQ (x :: r) == x + sumQ r.
Proof. cbn [sumQ]. apply nq_eq. Qed.

Lemma sumQ_nil : sumQ [] == 0.
Proof. reflexivity. Qed.

Lemma draw_loc_zero : draw_loc == 0.
Proof. vm_compute. reflexivity. Qed.

Lemma kin_half_val : kin_half == 1 # 2.
Proof. vm_compute. reflexivity. Qed.

Lemma sumQ_eq a b : Forall2 Qeq a b -> sumQ a == sumQ b.
Proof.
  induction 1 as [|x y a b Hxy _ IH]; [reflexivity|].
  rewrite !sumQ_cons, Hxy, IH. reflexivity.
Qed.

Lemma map2_length f a b : length (map2 f a b) = Nat.min (length a) (length b).
Proof.
  revert b; induction a as [|x a IH]; intros [|y b]; cbn; auto.
Qed.

(* ------------------------------------------------------------------ the draw: variance kT/m *)
Lemma sigma_sq s m beta kT : s * s * m * beta == 1 -> beta * kT == 1 -> s * s * m == kT.
Proof.
  intros H1 H2.
  transitivity (s * s * m * (beta * kT)). { rewrite H2. ring. }
  transitivity (s * s * m * beta * kT). { ring. }
  rewrite H1. ring.
Qed.

Lemma draw_variance_comp s m beta kT z :
  s * s * m * beta == 1 -> beta * kT == 1 ->
  m * ((draw_loc + s * z) * (draw_loc + s * z)) == kT * (z * z).
Proof.
  intros H1 H2. rewrite draw_loc_zero.
  transitivity (s * s * m * (z * z)). { ring. }
  rewrite (sigma_sq s m beta kT H1 H2). reflexivity.
Qed.

Lemma draw_variance_col beta kT sig mass :
  Forall2 (fun s m => s * s * m * beta == 1) sig mass -> beta * kT == 1 ->
  forall z, length z = length sig ->
  Forall2 Qeq (map2 (fun m v => m * (v * v)) mass (draw_col sig z))
              (map (fun x => kT * (x * x)) z).
Proof.
  intros HF Hb. induction HF as [|s m sig mass Hsm _ IH]; intros [|x z] Hl; cbn in Hl; try discriminate.
  - constructor.
  - cbn. constructor.
    + apply (draw_variance_comp s m beta kT x Hsm Hb).
    + apply IH. lia.
Qed.

(* repeated draws of one component of one atom: sample moments of v are those of z *)
Lemma draw_first_moment s zs :
  sumQ (map (fun z => draw_loc + s * z) zs) == s * sumQ zs.
Proof.
  induction zs as [|z zs IH]; cbn [map].
  - rewrite sumQ_nil. ring.
  - rewrite !sumQ_cons, IH, draw_loc_zero. ring.
Qed.

Lemma draw_second_moment s m beta kT zs :
  s * s * m * beta == 1 -> beta * kT == 1 ->
  sumQ (map (fun z => m * ((draw_loc + s * z) * (draw_loc + s * z))) zs)
  == kT * sumQ (map (fun z => z * z) zs).
Proof.
  intros H1 H2. induction zs as [|z zs IH]; cbn [map].
  - rewrite !sumQ_nil. ring.
  - rewrite !sumQ_cons, IH, (draw_variance_comp s m beta kT z H1 H2). ring.
Qed.

Lemma beta_of_inv kb temp : ~ temp * kb == 0 -> beta_of kb temp * (kb * temp) == 1.
Proof.
  intros H. unfold beta_of. field.
  split; intros E; apply H; rewrite E; ring.
Qed.

Lemma engine_variance e kbu temp s m z :
  ~ temp * kb_engine e kbu == 0 ->
  s * s * m * beta_of (kb_engine e kbu) temp == 1 ->
  m * ((draw_loc + s * z) * (draw_loc + s * z)) == kb_engine e kbu * temp * (z * z).
Proof.
  intros Hn H. apply (draw_variance_comp s m (beta_of (kb_engine e kbu) temp)); auto.
  apply beta_of_inv; auto.
Qed.

(* LAMMPS: the drawn value is divided by [scale] *)
Lemma scaled_variance_comp s m beta kT z sc :
  ~ sc == 0 -> s * s * m * beta == 1 -> beta * kT == 1 ->
  m * (((draw_loc + s * z) / sc) * ((draw_loc + s * z) / sc)) * (sc * sc) == kT * (z * z).
Proof.
  intros Hsc H1 H2. rewrite <- (draw_variance_comp s m beta kT z H1 H2). field. exact Hsc.
Qed.

(* ASE: momentum = z * sigp with sigp^2 = m kT, velocity = momentum / m *)
Lemma ase_variance_comp sp m kT z :
  ~ m == 0 -> sp * sp == m * kT ->
  m * ((z * sp / m) * (z * sp / m)) == kT * (z * z).
Proof.
  intros Hm H.
  transitivity ((sp * sp) * (z * z) / m). { field. exact Hm. }
  rewrite H. field. exact Hm.
Qed.

(* ------------------------------------------------------------------ relative closeness *)
Lemma Qsq_nonneg z : 0 <= z * z.
Proof.
  destruct z as [n d]. unfold Qle, Qmult. cbn [Qnum Qden]. rewrite Z.mul_1_r, Z.mul_0_l.
  apply Z.square_nonneg.
Qed.

Definition within (tol a b : Q) : Prop := Qabs (a - b) <= tol * Qabs b.

Lemma scaled_within X r t : 0 <= X -> Qabs (r - 1) <= t -> within t (X * r) X.
Proof.
  intros HX Hr. unfold within.
  assert (E : X * r - X == X * (r - 1)) by ring.
  rewrite E, Qabs_Qmult, !(Qabs_pos X HX).
  rewrite (Qmult_comm X). apply Qmult_le_compat_r; assumption.
Qed.

(* ------------------------------------------------------------------ momentum *)
Lemma mom_shift d : forall c m, length c = length m ->
  mom_col m (map (fun v => v - d) c) == mom_col m c - d * sumQ m.
Proof.
  unfold mom_col. induction c as [|v c IH]; intros [|x m] Hl; cbn in Hl; try discriminate.
  - cbn [map map2]. rewrite !sumQ_nil. ring.
  - cbn [map map2]. rewrite !sumQ_cons, IH by lia. ring.
Qed.

Lemma momentum_zero_col m c :
  length c = length m -> ~ sumQ m == 0 -> mom_col m (reset_col m c) == 0.
Proof.
  intros Hl HM. unfold reset_col. rewrite mom_shift by exact Hl. field. exact HM.
Qed.

Lemma reset_shift_uniform m c :
  reset_col m c = map (fun v => v - mom_col m c / sumQ m) c.
Proof. reflexivity. Qed.

Lemma kin_shift d : forall c m, length c = length m ->
  sumQ (map2 Qmult (map2 Qmult (map (fun v => v - d) c) m) (map (fun v => v - d) c))
  == sumQ (map2 Qmult (map2 Qmult c m) c) - (2 # 1) * d * mom_col m c + d * d * sumQ m.
Proof.
  unfold mom_col. induction c as [|v c IH]; intros [|x m] Hl; cbn in Hl; try discriminate.
  - cbn [map map2]. rewrite !sumQ_nil. ring.
  - cbn [map map2]. rewrite !sumQ_cons, IH by lia. ring.
Qed.

(* removing the centre-of-mass motion lowers the kinetic energy by exactly P^2 / 2M *)
Lemma kin_reset m c :
  length c = length m -> ~ sumQ m == 0 ->
  kin_col m (reset_col m c) == kin_col m c - kin_half * (mom_col m c * mom_col m c / sumQ m).
Proof.
  intros Hl HM. unfold kin_col, reset_col. rewrite kin_shift by exact Hl. field. exact HM.
Qed.

Lemma draw_col_length sig z : length (draw_col sig z) = Nat.min (length sig) (length z).
Proof. apply map2_length. Qed.

Lemma modify_std_momentum_zero e mass src ek zm sig z :
  use_zm e zm = true -> ~ sumQ mass == 0 ->
  length sig = length mass -> Forall (fun zc => length zc = length mass) z ->
  Forall (fun c => mom_col mass c == 0) (f_vel (r_frame (modify_std e mass src ek zm sig z))).
Proof.
  intros Hz HM Hs Hzc. unfold modify_std. rewrite Hz. cbn [r_frame f_vel].
  apply Forall_forall. intros c Hc. apply in_map_iff in Hc. destruct Hc as (c2 & <- & Hc2).
  apply momentum_zero_col; auto.
  assert (L1 : forall c1, In c1 (map (draw_col sig) z) -> length c1 = length mass).
  { intros c1 H1. apply in_map_iff in H1. destruct H1 as (zc & <- & Hin).
    rewrite draw_col_length. rewrite Forall_forall in Hzc. rewrite (Hzc zc Hin). lia. }
  destruct (vscale e) as [s|].
  - apply in_map_iff in Hc2. destruct Hc2 as (c1 & <- & H1). unfold unscale_col.
    rewrite map_length. auto.
  - auto.
Qed.

(* ASE Stationary *)
Lemma stationary_sum v0 : forall p m, length p = length m ->
  sumQ (map2 (fun pi mi => pi - v0 * mi) p m) == sumQ p - v0 * sumQ m.
Proof.
  induction p as [|x p IH]; intros [|y m] Hl; cbn in Hl; try discriminate.
  - cbn [map2]. rewrite !sumQ_nil. ring.
  - cbn [map2]. rewrite !sumQ_cons, IH by lia. ring.
Qed.

Lemma stationary_zero m p :
  length p = length m -> ~ sumQ m == 0 -> sumQ (stationary_col m p) == 0.
Proof.
  intros Hl HM. unfold stationary_col. rewrite stationary_sum by exact Hl. field. exact HM.
Qed.

(* total momentum of the velocities p/m is the sum of the momenta *)
Lemma mom_of_div : forall p m, length p = length m -> Forall (fun x => ~ x == 0) m ->
  mom_col m (map2 Qdiv p m) == sumQ p.
Proof.
  unfold mom_col. induction p as [|x p IH]; intros [|y m] Hl Hnz; cbn in Hl; try discriminate.
  - reflexivity.
  - inversion Hnz as [|? ? Hy Hm]; subst. cbn [map2]. rewrite !sumQ_cons, IH by (auto; lia).
    field. exact Hy.
Qed.

(* ... and Stationary shifts every velocity by the same v0 *)
Lemma stationary_shift_uniform v0 : forall p m, length p = length m -> Forall (fun x => ~ x == 0) m ->
  Forall2 Qeq (map2 Qdiv (map2 (fun pi mi => pi - v0 * mi) p m) m)
              (map (fun v => v - v0) (map2 Qdiv p m)).
Proof.
  induction p as [|x p IH]; intros [|y m] Hl Hnz; cbn in Hl; try discriminate.
  - constructor.
  - inversion Hnz as [|? ? Hy Hm]; subst. cbn [map2 map]. constructor.
    + field. exact Hy.
    + apply IH; auto; lia.
Qed.

Lemma stationary_length m p : length p = length m -> length (stationary_col m p) = length m.
Proof. intros H. unfold stationary_col. rewrite map2_length. lia. Qed.

Lemma modify_ase_momentum_zero fx mass src zm sigp z :
  use_zm Ase zm = true -> ~ sumQ mass == 0 -> Forall (fun x => ~ x == 0) mass ->
  length sigp = length mass -> Forall (fun zc => length zc = length mass) z ->
  Forall (fun c => mom_col mass c == 0) (f_vel (r_frame (modify_ase fx mass src zm sigp z))).
Proof.
  intros Hz HM Hnz Hs Hzc. unfold modify_ase. rewrite Hz. cbn [r_frame f_vel].
  apply Forall_forall. intros c Hc.
  apply in_map_iff in Hc. destruct Hc as (p2 & <- & Hp2).
  apply in_map_iff in Hp2. destruct Hp2 as (p1 & <- & Hp1).
  apply in_map_iff in Hp1. destruct Hp1 as (zc & <- & Hin).
  rewrite Forall_forall in Hzc. specialize (Hzc zc Hin).
  assert (L : length (map2 Qmult zc sigp) = length mass) by (rewrite map2_length; lia).
  rewrite mom_of_div; auto.
  - apply stationary_zero; auto.
  - apply stationary_length; auto.
Qed.

(* ------------------------------------------------------------------ dek / kin_new *)
Lemma dek_consistent_std e mass src ek zm sig z :
  let r := modify_std e mass src ek zm sig z in
  r_kin_new r = kinetic mass (f_vel (r_frame r)) /\
  r_kin_old r = (match e with Gromacs => ek | _ => Some (kinetic mass (f_vel src)) end) /\
  (forall d, r_dek r = Some d -> exists k, r_kin_old r = Some k /\ d = r_kin_new r - k) /\
  (r_dek r = None ->
   r_kin_old r = None \/ (e <> Gromacs /\ exists k, r_kin_old r = Some k /\ k == 0)).
Proof.
  cbv zeta. unfold modify_std. cbn [r_kin_new r_frame f_vel r_kin_old r_dek].
  split; [reflexivity|]. split; [reflexivity|]. split.
  - intros d Hd.
    destruct e; try (destruct ek as [k|]; [|discriminate]; inversion Hd; subst; eexists; split; reflexivity);
      (destruct (Qeq_bool (kinetic mass (f_vel src)) 0); [discriminate|]; inversion Hd; subst;
       eexists; split; reflexivity).
  - intros Hd.
    destruct e; try (destruct ek as [k|]; [discriminate|]; left; reflexivity);
      (destruct (Qeq_bool (kinetic mass (f_vel src)) 0) eqn:E; [|discriminate];
       right; split; [discriminate|]; eexists; split; [reflexivity|]; apply Qeq_bool_iff; exact E).
Qed.

Lemma ase_kin_col_is_kin_col : forall p m, length p = length m -> Forall (fun x => ~ x == 0) m ->
  ase_kin_col m p == kin_col m (map2 Qdiv p m).
Proof.
  intros p m Hl Hnz. unfold ase_kin_col, kin_col. rewrite kin_half_val.
  apply Qmult_comp; [reflexivity|]. apply sumQ_eq.
  revert m Hl Hnz. induction p as [|x p IH]; intros [|y m] Hl Hnz; cbn in Hl; try discriminate.
  - constructor.
  - inversion Hnz as [|? ? Hy Hm]; subst. cbn [map2]. constructor.
    + field. exact Hy.
    + apply IH; auto; lia.
Qed.

Lemma ase_kin_is_kinetic m ps :
  Forall (fun p => length p = length m) ps -> Forall (fun x => ~ x == 0) m ->
  ase_kin m ps == kinetic m (map (fun pc => map2 Qdiv pc m) ps).
Proof.
  intros Hl Hnz. unfold ase_kin, kinetic. apply sumQ_eq. rewrite map_map.
  induction Hl as [|p ps Hp _ IH]; cbn [map]; constructor; auto.
  apply ase_kin_col_is_kin_col; auto.
Qed.

Lemma modify_ase_lengths mass zm sigp z :
  length sigp = length mass -> Forall (fun zc => length zc = length mass) z ->
  Forall (fun p => length p = length mass)
    (if use_zm Ase zm then map (stationary_col mass) (map (fun zc => map2 Qmult zc sigp) z)
     else map (fun zc => map2 Qmult zc sigp) z).
Proof.
  intros Hs Hz.
  assert (L1 : Forall (fun p => length p = length mass) (map (fun zc => map2 Qmult zc sigp) z)).
  { apply Forall_forall. intros p Hp. apply in_map_iff in Hp. destruct Hp as (zc & <- & Hin).
    rewrite Forall_forall in Hz. rewrite map2_length, (Hz zc Hin). lia. }
  destruct (use_zm Ase zm); [|exact L1].
  apply Forall_forall. intros p Hp. apply in_map_iff in Hp. destruct Hp as (p1 & <- & Hin).
  rewrite Forall_forall in L1. apply stationary_length. auto.
Qed.

Lemma dek_consistent_ase mass src zm sigp z :
  Forall (fun x => ~ x == 0) mass ->
  length sigp = length mass -> Forall (fun zc => length zc = length mass) z ->
  let r := modify_ase true mass src zm sigp z in
  r_kin_new r == kinetic mass (f_vel (r_frame r)) /\
  (forall d, r_dek r = Some d -> exists k, r_kin_old r = Some k /\ d = r_kin_new r - k) /\
  (r_dek r = None -> exists k, r_kin_old r = Some k /\ k == 0).
Proof.
  intros Hnz Hs Hz. cbv zeta. unfold modify_ase. cbn [r_kin_new r_frame f_vel r_kin_old r_dek].
  split; [|split].
  - apply ase_kin_is_kinetic; auto. apply modify_ase_lengths; auto.
  - intros d Hd. destruct (Qeq_bool _ 0); [discriminate|]. inversion Hd; subst.
    eexists; split; reflexivity.
  - intros Hd. destruct (Qeq_bool _ 0) eqn:E; [|discriminate].
    eexists; split; [reflexivity|]. apply Qeq_bool_iff. exact E.
Qed.

(* the statement order of lead L6 reports a kinetic energy that is not that of the
   velocities written: two unit masses, both drawn with +1 along x *)
Definition l6_mass : list Q := [1; 1].
Definition l6_src : frame := mkFrame [[0; 1]; [0; 0]; [0; 0]] [[1; 0]; [0; 0]; [0; 0]] [3; 3; 3] [1%Z; 2%Z].
Definition l6_z : list col := [[1; 1]; [0; 0]; [0; 0]].

Lemma ase_L6_refuted :
  let r := modify_ase false l6_mass l6_src (Some true) [1; 1] l6_z in
  ~ r_kin_new r == kinetic l6_mass (f_vel (r_frame r)).
Proof.
  cbv zeta. intros H. apply Qeq_bool_iff in H. vm_compute in H. discriminate.
Qed.

(* ------------------------------------------------------------------ positions, box, identities *)
Lemma positions_untouched_std e mass src ek zm sig z :
  let f := r_frame (modify_std e mass src ek zm sig z) in
  f_pos f = f_pos src /\ f_box f = f_box src /\ f_ids f = f_ids src.
Proof. cbv zeta. unfold modify_std. cbn. auto. Qed.

Lemma positions_untouched_ase fx mass src zm sigp z :
  let f := r_frame (modify_ase fx mass src zm sigp z) in
  f_pos f = f_pos src /\ f_box f = f_box src /\ f_ids f = f_ids src.
Proof. cbv zeta. unfold modify_ase. cbn. auto. Qed.

(* ------------------------------------------------------------------ files and the source frame *)
Lemma fname_eqb_eq a b : fname_eqb a b = true <-> a = b.
Proof.
  destruct a as [x| |], b as [y| |]; cbn; split; intros H; try discriminate; try reflexivity.
  - apply Z.eqb_eq in H. now subst.
  - inversion H. apply Z.eqb_refl.
Qed.

Lemma write_other w f c g : g <> f -> write w f c g = w g.
Proof.
  intros H. unfold write. destruct (fname_eqb g f) eqn:E; [|reflexivity].
  apply fname_eqb_eq in E. contradiction.
Qed.

Lemma write_same w f c : write w f c f = Some c.
Proof.
  unfold write. destruct (fname_eqb f f) eqn:E; [reflexivity|].
  assert (fname_eqb f f = true) by (apply fname_eqb_eq; reflexivity). congruence.
Qed.

Lemma modify_world_spec run w s w' s' r :
  modify_world run w s = Some (w', s', r) ->
  (forall f, f <> FConf -> f <> FGenvel -> w' f = w f) /\
  (exists fr, w (s_file s) = Some fr /\ r = run fr (s_ekin s) /\
              (FConf <> FGenvel -> w' FConf = Some fr)) /\
  w' FGenvel = Some (r_frame r) /\
  s' = mkSys FGenvel (Some (r_kin_new r)).
Proof.
  unfold modify_world. destruct (w (s_file s)) as [fr|] eqn:E; [|discriminate].
  intros H. inversion H; subst; clear H.
  split; [|split; [|split]].
  - intros f H1 H2. rewrite !write_other by assumption. reflexivity.
  - exists fr. split; [reflexivity|]. split; [reflexivity|].
    intros _. rewrite write_other by discriminate. apply write_same.
  - apply write_same.
  - reflexivity.
Qed.

Lemma prepare_spec run w path idx w' path' cp dek :
  prepare run w path idx = Some (w', path', cp, dek) ->
  path' = path /\
  (forall n, w' (FSrc n) = w (FSrc n)) /\
  (exists sp fr, nth_error path idx = Some sp /\ w (s_file sp) = Some fr /\
     let r := run fr (s_ekin sp) in
     dek = r_dek r /\ cp = mkSys FGenvel (Some (r_kin_new r)) /\ w' FGenvel = Some (r_frame r)).
Proof.
  unfold prepare. destruct (nth_error path idx) as [sp|] eqn:En; [|discriminate].
  destruct (modify_world run w (mkSys (s_file sp) (s_ekin sp))) as [[[w2 cp2] r]|] eqn:Em; [|discriminate].
  intros H. inversion H; subst; clear H.
  destruct (modify_world_spec _ _ _ _ _ _ Em) as (Hf & (fr & Hfr & Hr & _) & Hg & Hs).
  cbn [s_file s_ekin] in *. split; [reflexivity|]. split.
  - intros n. apply Hf; discriminate.
  - exists sp, fr. cbv zeta. rewrite <- Hr. auto.
Qed.

(* ------------------------------------------------------------------ several calls in one exe_dir *)
Lemma twrite_other a w f c g : g <> f -> twrite a w f c g = w g.
Proof.
  intros H. unfold twrite. destruct (fname_eqb g f) eqn:E; [|reflexivity].
  apply fname_eqb_eq in E. contradiction.
Qed.

Lemma twrite_same a w f c : twrite a w f c f = if a then w f ++ [c] else [c].
Proof.
  unfold twrite. destruct (fname_eqb f f) eqn:E; [reflexivity|].
  assert (fname_eqb f f = true) by (apply fname_eqb_eq; reflexivity). congruence.
Qed.

(* the rule "extraction overwrites": whatever conf.<ext> held, it now holds that snapshot only *)
Lemma extract_overwrites w fr : twrite (negb true) w FConf fr FConf = [fr].
Proof. cbn [negb]. apply twrite_same. Qed.

Lemma modify_tworld_spec run w s w' s' r :
  modify_tworld true run w s = Some (w', s', r) ->
  (forall f, f <> FConf -> f <> FGenvel -> w' f = w f) /\
  call_alone w (s, run) = Some r /\
  w' FConf = match nth_error (w (t_file s)) (t_idx s) with Some fr => [fr] | None => [] end /\
  w' FGenvel = [r_frame r] /\
  s' = mkTSys FGenvel 0 (Some (r_kin_new r)).
Proof.
  unfold modify_tworld, call_alone. cbn [fst snd].
  destruct (nth_error (w (t_file s)) (t_idx s)) as [fr|] eqn:E; [|discriminate].
  rewrite extract_overwrites. intros H. inversion H; subst; clear H.
  split; [|split; [|split; [|split]]].
  - intros f H1 H2. rewrite !twrite_other by assumption. reflexivity.
  - reflexivity.
  - rewrite twrite_other by discriminate. apply extract_overwrites.
  - apply twrite_same.
  - reflexivity.
Qed.

Lemma call_alone_ext w1 w2 c :
  from_source c -> (forall n, w1 (FSrc n) = w2 (FSrc n)) -> call_alone w1 c = call_alone w2 c.
Proof. intros [n Hn] H. unfold call_alone. rewrite Hn, H. reflexivity. Qed.

(* every call of a sequence yields what it yields alone: its result depends on its own shooting
   point and its own operation (draws), not on the calls made before it in the same directory *)
Lemma modify_seq_independent : forall calls w w' rs,
  Forall from_source calls ->
  modify_seq true w calls = Some (w', rs) ->
  Forall2 (fun c r => call_alone w c = Some r) calls rs /\
  (forall n, w' (FSrc n) = w (FSrc n)).
Proof.
  induction calls as [|[s run] rest IH]; intros w w' rs Hsrc H.
  - cbn in H. inversion H; subst. split; [constructor|reflexivity].
  - cbn [modify_seq] in H.
    destruct (modify_tworld true run w s) as [[[w1 s1] r]|] eqn:E1; [|discriminate].
    destruct (modify_seq true w1 rest) as [[w2 rs2]|] eqn:E2; [|discriminate].
    inversion H; subst; clear H.
    inversion Hsrc as [|c l Hc Hrest]; subst.
    destruct (modify_tworld_spec _ _ _ _ _ _ E1) as (Hf & Hr & _).
    assert (Hw1 : forall n, w1 (FSrc n) = w (FSrc n)) by (intros n; apply Hf; discriminate).
    destruct (IH _ _ _ Hrest E2) as (Hall & Hw2).
    split.
    + constructor; [exact Hr|].
      clear - Hall Hrest Hw1. induction Hall as [|c r cs rs Hcr _ IHH]; [constructor|].
      inversion Hrest as [|c0 l0 Hc0 Hl0]; subst.
      constructor; [|apply IHH; assumption].
      rewrite <- Hcr. symmetry. apply call_alone_ext; assumption.
    + intros n. rewrite Hw2. apply Hw1.
Qed.

(* the same statement for two different histories: what was regenerated earlier is irrelevant *)
Lemma modify_seq_history_irrelevant before1 before2 c w w1 rs1 w2 rs2 :
  Forall from_source (before1 ++ [c]) -> Forall from_source (before2 ++ [c]) ->
  modify_seq true w (before1 ++ [c]) = Some (w1, rs1) ->
  modify_seq true w (before2 ++ [c]) = Some (w2, rs2) ->
  exists r, call_alone w c = Some r /\ last rs1 r = r /\ last rs2 r = r /\
            rs1 = removelast rs1 ++ [r] /\ rs2 = removelast rs2 ++ [r].
Proof.
  intros S1 S2 H1 H2.
  destruct (modify_seq_independent _ _ _ _ S1 H1) as (A1 & _).
  destruct (modify_seq_independent _ _ _ _ S2 H2) as (A2 & _).
  apply Forall2_app_inv_l in A1. destruct A1 as (a1 & b1 & _ & B1 & ->).
  apply Forall2_app_inv_l in A2. destruct A2 as (a2 & b2 & _ & B2 & ->).
  inversion B1 as [|x r l l' Hr Hn]; subst. inversion Hn; subst.
  inversion B2 as [|x r' l l' Hr' Hn']; subst. inversion Hn'; subst.
  assert (r' = r) by congruence. subst r'.
  exists r. rewrite !last_last, !removelast_last. auto.
Qed.

(* the operation leaves the positions alone, so in a sequence every regenerated frame carries
   the positions, box and identities of ITS shooting point, and kin_old is that frame's *)
Lemma modify_seq_std_positions e mass zm sig cs files rs :
  seq_results true files (map (std_call e mass zm sig) cs) = Some rs ->
  Forall2 (fun c r => let '(fno, idx, ek, s) := c in
             exists fr, nth_error (world_of_files files (FSrc fno)) idx = Some fr /\
               r = modify_std e mass fr ek zm sig (cols_of_stream (f_npart fr) (f_dim fr) s) /\
               f_pos (r_frame r) = f_pos fr /\ f_box (r_frame r) = f_box fr /\ f_ids (r_frame r) = f_ids fr /\
               (e <> Gromacs -> r_kin_old r = Some (kinetic mass (f_vel fr))))
          cs rs.
Proof.
  unfold seq_results. intros H.
  destruct (modify_seq true (world_of_files files) (map (std_call e mass zm sig) cs)) as [[w' rs']|] eqn:E; [|discriminate].
  inversion H; subst; clear H.
  assert (Hsrc : Forall from_source (map (std_call e mass zm sig) cs)).
  { apply Forall_forall. intros c Hc. apply in_map_iff in Hc. destruct Hc as ([[[fno idx] ek] s] & <- & _).
    exists fno. reflexivity. }
  destruct (modify_seq_independent _ _ _ _ Hsrc E) as (Hall & _).
  clear E Hsrc. revert rs Hall. induction cs as [|[[[fno idx] ek] s] cs IH]; intros rs Hall.
  - inversion Hall; subst. constructor.
  - cbn [map] in Hall. inversion Hall as [|c r l l' Hr Hrest]; subst.
    constructor; [|apply IH; assumption].
    unfold call_alone, std_call in Hr. cbn [fst snd t_file t_idx t_ekin] in Hr.
    destruct (nth_error (world_of_files files (FSrc fno)) idx) as [fr|] eqn:En; [|discriminate].
    inversion Hr; subst; clear Hr. exists fr. split; [reflexivity|]. split; [reflexivity|].
    destruct (positions_untouched_std e mass fr ek zm sig (cols_of_stream (f_npart fr) (f_dim fr) s)) as (P & B & I).
    repeat split; try assumption.
    intros He. unfold modify_std. destruct e; try reflexivity. contradiction.
Qed.

(* ------------------------------------------------------------------ the random stream *)
Lemma nth_firstn_lt {A} (d : A) : forall n k (l : list A), (k < n)%nat -> nth k (firstn n l) d = nth k l d.
Proof.
  induction n as [|n IH]; intros k l Hk; [lia|].
  destruct l as [|a l]; cbn [firstn]; [reflexivity|].
  destruct k as [|k]; cbn [nth]; [reflexivity|]. apply IH. lia.
Qed.

Lemma stream_col_prefix npart dim s1 s2 j :
  (j < dim)%nat -> firstn (npart * dim) s1 = firstn (npart * dim) s2 ->
  stream_col npart dim s1 j = stream_col npart dim s2 j.
Proof.
  intros Hj H. unfold stream_col. apply map_ext_in. intros i Hi. apply in_seq in Hi.
  assert (Hk : (i * dim + j < npart * dim)%nat) by nia.
  rewrite <- (nth_firstn_lt 0 _ _ s1 Hk), <- (nth_firstn_lt 0 _ _ s2 Hk), H. reflexivity.
Qed.

Lemma cols_of_stream_prefix npart dim s1 s2 :
  firstn (npart * dim) s1 = firstn (npart * dim) s2 ->
  cols_of_stream npart dim s1 = cols_of_stream npart dim s2.
Proof.
  intros H. unfold cols_of_stream. apply map_ext_in. intros j Hj. apply in_seq in Hj.
  apply stream_col_prefix; [lia|exact H].
Qed.

Lemma cols_of_stream_shape npart dim s :
  length (cols_of_stream npart dim s) = dim /\
  Forall (fun c => length c = npart) (cols_of_stream npart dim s).
Proof.
  unfold cols_of_stream. split.
  - now rewrite map_length, seq_length.
  - apply Forall_forall. intros c Hc. apply in_map_iff in Hc. destruct Hc as (j & <- & _).
    unfold stream_col. now rewrite map_length, seq_length.
Qed.

Lemma reproducible_std e mass src ek zm sig s1 s2 :
  firstn (f_npart src * f_dim src) s1 = firstn (f_npart src * f_dim src) s2 ->
  fst (modify_std_stream e mass src ek zm sig s1) = fst (modify_std_stream e mass src ek zm sig s2).
Proof.
  intros H. unfold modify_std_stream. cbn [fst]. now rewrite (cols_of_stream_prefix _ _ _ _ H).
Qed.

Lemma reproducible_ase fx mass src zm sigp s1 s2 :
  firstn (length mass * 3) s1 = firstn (length mass * 3) s2 ->
  fst (modify_ase_stream fx mass src zm sigp s1) = fst (modify_ase_stream fx mass src zm sigp s2).
Proof.
  intros H. unfold modify_ase_stream. cbn [fst]. now rewrite (cols_of_stream_prefix _ _ _ _ H).
Qed.

Lemma stream_consumed npart dim s :
  s = firstn (npart * dim) s ++ stream_rest npart dim s /\
  length (stream_rest npart dim s) = (length s - npart * dim)%nat.
Proof.
  unfold stream_rest. split; [symmetry; apply firstn_skipn|apply skipn_length].
Qed.

(* ------------------------------------------------------------------ unit constants *)
Ltac qbound := unfold within; apply Qle_bool_imp_le; vm_compute; reflexivity.

Lemma units_gromacs_kb : within tol6 (kb_gromacs * gmx_energy) si_k.
Proof. qbound. Qed.
Lemma units_gromacs_mv2 : gmx_mass * (gmx_vel * gmx_vel) == gmx_energy.
Proof. vm_compute. reflexivity. Qed.

Lemma units_lammps_kb : within tol6 (kb_lammps * lmp_energy) si_k.
Proof. qbound. Qed.
(* a file velocity v stands for v * lmp_vel m/s; the draw is in the unit u with
   lmp_mass * u^2 = lmp_energy, and v = draw / scale, hence u = lmp_vel / scale *)
Lemma units_lammps_mv2 :
  within tol6 (lmp_mass * ((lmp_vel / scale_lammps) * (lmp_vel / scale_lammps))) lmp_energy.
Proof. qbound. Qed.
Lemma scale_lammps_nonzero : ~ scale_lammps == 0.
Proof. intros H. apply Qeq_bool_iff in H. vm_compute in H. discriminate. Qed.
(* same fact as a pure number: (g/mol)(A/fs)^2 per kcal/mol, over scale^2, is 1 *)
Lemma units_lammps_ratio :
  Qabs (lmp_mass * (lmp_vel * lmp_vel) / lmp_energy / (scale_lammps * scale_lammps) - 1) <= tol6.
Proof. apply Qle_bool_imp_le; vm_compute; reflexivity. Qed.

Definition tol_cp2k : Q := 2 # 1000000.
Lemma units_cp2k_kb : within tol_cp2k (kb_cp2k * si_Eh) si_k.
Proof. qbound. Qed.
(* (the literal in cp2k.py is 1.2e-6 away from the 2019 SI value, hence tol_cp2k = 2e-6; no
   lower bound on the error is claimed, so that correcting the literal re-opens nothing) *)
Lemma units_cp2k_mass : within tol6 (massfac_cp2k * si_me) si_mu.
Proof. qbound. Qed.

Lemma units_ase_kb : within tol6 (kb_ase * si_e) si_k.
Proof. qbound. Qed.
Lemma units_ase_lib_kb : within tol6 (ase_lib_kB * si_e) si_k.
Proof. qbound. Qed.
Lemma units_ase_kb_agree : within tol6 kb_ase ase_lib_kB.
Proof. qbound. Qed.

(* LAMMPS, end to end: the kinetic term of a written velocity component, converted from
   (g/mol)(A/fs)^2 to kcal/mol, is kT z^2 within 1e-6 *)
Lemma lammps_temperature s m beta kT z :
  s * s * m * beta == 1 -> beta * kT == 1 -> 0 <= kT ->
  let v := (draw_loc + s * z) / scale_lammps in
  within tol6 (m * (v * v) * (lmp_mass * (lmp_vel * lmp_vel) / lmp_energy)) (kT * (z * z)).
Proof.
  intros H1 H2 Hk. cbv zeta.
  pose proof (scaled_variance_comp s m beta kT z scale_lammps scale_lammps_nonzero H1 H2) as E.
  set (c := lmp_mass * (lmp_vel * lmp_vel) / lmp_energy) in *.
  set (v := (draw_loc + s * z) / scale_lammps) in *.
  assert (Hx : 0 <= kT * (z * z)) by (apply Qmult_le_0_compat; [exact Hk|apply Qsq_nonneg]).
  assert (E2 : m * (v * v) * c == kT * (z * z) * (c / (scale_lammps * scale_lammps))).
  { rewrite <- E. field. exact scale_lammps_nonzero. }
  unfold within. rewrite E2.
  apply (scaled_within (kT * (z * z)) (c / (scale_lammps * scale_lammps)) tol6 Hx).
  exact units_lammps_ratio.
Qed.

(* ------------------------------------------------------------------ the whole operation: variance *)
Lemma Forall2_map_self {A B} (P : B -> A -> Prop) (f : A -> B) l :
  Forall (fun a => P (f a) a) l -> Forall2 P (map f l) l.
Proof. induction 1; cbn; constructor; auto. Qed.

Lemma variance_col_plain beta kT sig mass :
  Forall2 (fun s m => s * s * m * beta == 1) sig mass -> beta * kT == 1 ->
  forall z, length z = length sig ->
  Forall2 Qeq (map2 (fun m v => m * (v * v) * 1) mass (draw_col sig z))
              (map (fun x => kT * (x * x)) z).
Proof.
  intros HF Hb. induction HF as [|s m sig mass Hsm _ IH]; intros [|x z] Hl; cbn in Hl; try discriminate.
  - constructor.
  - cbn. constructor.
    + rewrite Qmult_1_r. apply (draw_variance_comp s m beta kT x Hsm Hb).
    + apply IH. lia.
Qed.

Lemma variance_col_scaled beta kT sc sig mass :
  ~ sc == 0 ->
  Forall2 (fun s m => s * s * m * beta == 1) sig mass -> beta * kT == 1 ->
  forall z, length z = length sig ->
  Forall2 Qeq (map2 (fun m v => m * (v * v) * (sc * sc)) mass (unscale_col sc (draw_col sig z)))
              (map (fun x => kT * (x * x)) z).
Proof.
  intros Hsc HF Hb. induction HF as [|s m sig mass Hsm _ IH]; intros [|x z] Hl; cbn in Hl; try discriminate.
  - constructor.
  - cbn. constructor.
    + apply (scaled_variance_comp s m beta kT x sc Hsc Hsm Hb).
    + apply IH. lia.
Qed.

Lemma modify_std_variance e kbu temp mass src ek zm sig z :
  use_zm e zm = false -> ~ temp * kb_engine e kbu == 0 ->
  Forall2 (fun s m => s * s * m * beta_of (kb_engine e kbu) temp == 1) sig mass ->
  Forall (fun zc => length zc = length sig) z ->
  Forall2 (fun vc zc =>
             Forall2 Qeq (map2 (fun m v => m * (v * v) * vunit2 e) mass vc)
                         (map (fun x => kb_engine e kbu * temp * (x * x)) zc))
          (f_vel (r_frame (modify_std e mass src ek zm sig z))) z.
Proof.
  intros Hz Hn HF Hl. unfold modify_std. rewrite Hz. cbn [r_frame f_vel].
  pose proof (beta_of_inv (kb_engine e kbu) temp Hn) as Hb.
  unfold vunit2. destruct (vscale e) as [s|] eqn:Es.
  - assert (Hs : ~ s == 0).
    { destruct e; cbn in Es; try discriminate. inversion Es; subst. exact scale_lammps_nonzero. }
    rewrite map_map. apply Forall2_map_self. rewrite Forall_forall in *. intros zc Hin.
    apply (variance_col_scaled _ _ s sig mass Hs HF Hb). auto.
  - apply Forall2_map_self. rewrite Forall_forall in *. intros zc Hin.
    apply (variance_col_plain _ _ sig mass HF Hb). auto.
Qed.

Lemma variance_col_ase kT sigp mass :
  Forall2 (fun sp m => sp * sp == m * kT /\ ~ m == 0) sigp mass ->
  forall z, length z = length sigp ->
  Forall2 Qeq (map2 (fun m v => m * (v * v)) mass (map2 Qdiv (map2 Qmult z sigp) mass))
              (map (fun x => kT * (x * x)) z).
Proof.
  intros HF. induction HF as [|sp m sigp mass [Hsm Hm] _ IH]; intros [|x z] Hl; cbn in Hl; try discriminate.
  - constructor.
  - cbn. constructor.
    + apply (ase_variance_comp sp m kT x Hm Hsm).
    + apply IH. lia.
Qed.

Lemma modify_ase_variance fx kT mass src zm sigp z :
  use_zm Ase zm = false ->
  Forall2 (fun sp m => sp * sp == m * kT /\ ~ m == 0) sigp mass ->
  Forall (fun zc => length zc = length sigp) z ->
  Forall2 (fun vc zc =>
             Forall2 Qeq (map2 (fun m v => m * (v * v)) mass vc) (map (fun x => kT * (x * x)) zc))
          (f_vel (r_frame (modify_ase fx mass src zm sigp z))) z.
Proof.
  intros Hz HF Hl. unfold modify_ase. rewrite Hz. cbn [r_frame f_vel].
  rewrite map_map. apply Forall2_map_self. rewrite Forall_forall in *. intros zc Hin.
  apply (variance_col_ase kT sigp mass HF). auto.
Qed.

(* ------------------------------------------------------------------ the temperature in SI units *)
(* A is a kinetic term m v^2 in the engine's energy unit, Eunit that unit in joule *)
Lemma si_temperature kb Eunit tol A T z :
  A == kb * T * (z * z) -> within tol (kb * Eunit) si_k -> 0 <= T ->
  within tol (A * Eunit) (si_k * T * (z * z)).
Proof.
  intros E W HT. unfold within in *.
  assert (X : 0 <= T * (z * z)) by (apply Qmult_le_0_compat; [exact HT|apply Qsq_nonneg]).
  assert (E1 : A * Eunit - si_k * T * (z * z) == (kb * Eunit - si_k) * (T * (z * z))) by (rewrite E; ring).
  assert (E2 : si_k * T * (z * z) == si_k * (T * (z * z))) by ring.
  rewrite E1, E2, (Qabs_Qmult (kb * Eunit - si_k)), (Qabs_Qmult si_k), (Qabs_pos _ X), (Qmult_assoc tol).
  apply Qmult_le_compat_r; assumption.
Qed.

Lemma temperature_si_gromacs m v T z :
  m * (v * v) == kb_gromacs * T * (z * z) -> 0 <= T ->
  within tol6 ((m * gmx_mass) * ((v * gmx_vel) * (v * gmx_vel))) (si_k * T * (z * z)).
Proof.
  intros E HT.
  pose proof (si_temperature kb_gromacs gmx_energy tol6 _ T z E units_gromacs_kb HT) as W.
  unfold within in *.
  assert (E1 : (m * gmx_mass) * ((v * gmx_vel) * (v * gmx_vel)) == m * (v * v) * gmx_energy).
  { rewrite <- units_gromacs_mv2. ring. }
  rewrite E1. exact W.
Qed.

Lemma units_lammps_kb_draw : within tol6 (kb_lammps * lmp_draw_energy) si_k.
Proof. unfold within; apply Qle_bool_imp_le; vm_compute; reflexivity. Qed.

Lemma temperature_si_lammps m v T z :
  m * (v * v) * (scale_lammps * scale_lammps) == kb_lammps * T * (z * z) -> 0 <= T ->
  within tol6 ((m * lmp_mass) * ((v * lmp_vel) * (v * lmp_vel))) (si_k * T * (z * z)).
Proof.
  intros E HT.
  pose proof (si_temperature kb_lammps lmp_draw_energy tol6 _ T z E units_lammps_kb_draw HT) as W.
  unfold within in *.
  assert (E1 : (m * lmp_mass) * ((v * lmp_vel) * (v * lmp_vel))
               == m * (v * v) * (scale_lammps * scale_lammps) * lmp_draw_energy).
  { unfold lmp_draw_energy. field. exact scale_lammps_nonzero. }
  rewrite E1. exact W.
Qed.

Lemma si_me_nonzero : ~ si_me == 0.
Proof. intros H. apply Qeq_bool_iff in H. vm_compute in H. discriminate. Qed.
Lemma si_mu_nonzero : ~ si_mu == 0.
Proof. intros H. apply Qeq_bool_iff in H. vm_compute in H. discriminate. Qed.

Lemma temperature_si_cp2k m v T z :
  m * (v * v) == kb_cp2k * T * (z * z) -> 0 <= T ->
  within tol_cp2k ((m * cp2k_mass) * (v * v * cp2k_vel2)) (si_k * T * (z * z)).
Proof.
  intros E HT.
  pose proof (si_temperature kb_cp2k si_Eh tol_cp2k _ T z E units_cp2k_kb HT) as W.
  unfold within in *.
  assert (E1 : (m * cp2k_mass) * (v * v * cp2k_vel2) == m * (v * v) * si_Eh).
  { unfold cp2k_mass, cp2k_vel2. field. exact si_me_nonzero. }
  rewrite E1. exact W.
Qed.

Lemma temperature_si_ase m v T z :
  m * (v * v) == ase_lib_kB * T * (z * z) -> 0 <= T ->
  within tol6 ((m * ase_mass) * (v * v * ase_vel2)) (si_k * T * (z * z)).
Proof.
  intros E HT.
  pose proof (si_temperature ase_lib_kB si_e tol6 _ T z E units_ase_lib_kb HT) as W.
  unfold within in *.
  assert (E1 : (m * ase_mass) * (v * v * ase_vel2) == m * (v * v) * si_e).
  { unfold ase_mass, ase_vel2. field. exact si_mu_nonzero. }
  rewrite E1. exact W.
Qed.

(* ------------------------------------------------------------------ kinetic energy reported: (1/2) kT sum z^2 *)
Lemma sumQ_map_scale {A} (f : A -> Q) k l : sumQ (map (fun a => k * f a) l) == k * sumQ (map f l).
Proof.
  induction l as [|a l IH]; cbn [map].
  - rewrite sumQ_nil. ring.
  - rewrite !sumQ_cons, IH. ring.
Qed.

Lemma sumQ_map2_scale (f : Q -> Q -> Q) k : forall a b,
  sumQ (map2 (fun x y => f x y * k) a b) == sumQ (map2 f a b) * k.
Proof.
  induction a as [|x a IH]; intros [|y b]; cbn [map2]; try (rewrite sumQ_nil; ring).
  rewrite !sumQ_cons, IH. ring.
Qed.

Lemma kin_col_as_sum : forall c m,
  kin_col m c == kin_half * sumQ (map2 (fun m v => m * (v * v)) m c).
Proof.
  intros c m. unfold kin_col. apply Qmult_comp; [reflexivity|]. apply sumQ_eq.
  revert m. induction c as [|v c IH]; intros [|x m]; cbn [map2]; try constructor.
  - ring.
  - apply IH.
Qed.

Lemma kin_col_variance u kT mass vc zc :
  Forall2 Qeq (map2 (fun m v => m * (v * v) * u) mass vc) (map (fun x => kT * (x * x)) zc) ->
  kin_col mass vc * u == kin_half * kT * sumQ (map (fun x => x * x) zc).
Proof.
  intros H. rewrite kin_col_as_sum.
  transitivity (kin_half * (sumQ (map2 (fun m v => m * (v * v)) mass vc) * u)); [ring|].
  rewrite <- (sumQ_map2_scale (fun m v => m * (v * v)) u).
  rewrite (sumQ_eq _ _ H), sumQ_map_scale. ring.
Qed.

Lemma kinetic_variance u kT mass vs z :
  Forall2 (fun vc zc => Forall2 Qeq (map2 (fun m v => m * (v * v) * u) mass vc)
                                    (map (fun x => kT * (x * x)) zc)) vs z ->
  kinetic mass vs * u == kin_half * kT * sum_sq z.
Proof.
  unfold kinetic, sum_sq. induction 1 as [|vc zc vs z H _ IH]; cbn [map].
  - rewrite !sumQ_nil. ring.
  - rewrite !sumQ_cons. rewrite Qmult_plus_distr_l, IH, (kin_col_variance u kT mass vc zc H). ring.
Qed.

Lemma modify_std_equipartition e kbu temp mass src ek zm sig z :
  use_zm e zm = false -> ~ temp * kb_engine e kbu == 0 ->
  Forall2 (fun s m => s * s * m * beta_of (kb_engine e kbu) temp == 1) sig mass ->
  Forall (fun zc => length zc = length sig) z ->
  r_kin_new (modify_std e mass src ek zm sig z) * vunit2 e
  == kin_half * (kb_engine e kbu * temp) * sum_sq z.
Proof.
  intros Hz Hn HF Hl.
  destruct (dek_consistent_std e mass src ek zm sig z) as (Hk & _). cbv zeta in Hk. rewrite Hk.
  apply kinetic_variance. apply modify_std_variance; assumption.
Qed.

Lemma Forall2_times_one : forall a b r,
  Forall2 Qeq (map2 (fun m v => m * (v * v)) a b) r ->
  Forall2 Qeq (map2 (fun m v => m * (v * v) * 1) a b) r.
Proof.
  induction a as [|x a IH]; intros [|y b] r H; cbn [map2] in *; try exact H.
  inversion H as [|? ? ? ? Hxy Hr]; subst. constructor.
  - rewrite Qmult_1_r. exact Hxy.
  - apply IH. exact Hr.
Qed.

Lemma Forall2_weaken {A B} (P R : A -> B -> Prop) :
  (forall a b, P a b -> R a b) -> forall l l', Forall2 P l l' -> Forall2 R l l'.
Proof. intros H l l'. induction 1; constructor; auto. Qed.

Lemma modify_ase_equipartition kT mass src zm sigp z :
  use_zm Ase zm = false ->
  Forall2 (fun sp m => sp * sp == m * kT /\ ~ m == 0) sigp mass ->
  Forall (fun zc => length zc = length sigp) z ->
  r_kin_new (modify_ase true mass src zm sigp z) == (1 # 2) * kT * sum_sq z.
Proof.
  intros Hz HF Hl.
  assert (Hnz : Forall (fun x => ~ x == 0) mass).
  { clear -HF. induction HF as [|? ? ? ? [_ H] _ IH]; constructor; auto. }
  assert (Hlen : length sigp = length mass).
  { clear -HF. induction HF; cbn; auto. }
  assert (Hl' : Forall (fun zc => length zc = length mass) z).
  { rewrite Forall_forall in *. intros zc Hin. rewrite (Hl zc Hin). exact Hlen. }
  destruct (dek_consistent_ase mass src zm sigp z Hnz Hlen Hl') as (Hk & _). cbv zeta in Hk. rewrite Hk.
  rewrite <- kin_half_val, <- (Qmult_1_r (kinetic _ _)).
  apply kinetic_variance.
  pose proof (modify_ase_variance true kT mass src zm sigp z Hz HF Hl) as V.
  revert V. apply Forall2_weaken. intros vc zc H. apply Forall2_times_one. exact H.
Qed.

(* ------------------------------------------------------------------ source files without velocities / box entry *)
Lemma modify_std_col_lengths e mass src ek zm sig z n :
  length sig = n -> Forall (fun zc => length zc = n) z ->
  Forall (fun c => length c = n) (f_vel (r_frame (modify_std e mass src ek zm sig z))).
Proof.
  intros Hs Hz. unfold modify_std. cbn [r_frame f_vel].
  assert (L1 : Forall (fun c => length c = n) (map (draw_col sig) z)).
  { apply Forall_forall. intros c1 H1. apply in_map_iff in H1. destruct H1 as (zc & <- & Hin).
    rewrite draw_col_length. rewrite Forall_forall in Hz. rewrite (Hz zc Hin). lia. }
  assert (L2 : Forall (fun c => length c = n)
                 (match vscale e with Some s => map (unscale_col s) (map (draw_col sig) z)
                                    | None => map (draw_col sig) z end)).
  { destruct (vscale e) as [s|]; [|exact L1].
    apply Forall_forall. intros c2 H2. apply in_map_iff in H2. destruct H2 as (c1 & <- & Hin).
    unfold unscale_col. rewrite map_length. rewrite Forall_forall in L1. auto. }
  destruct (use_zm e zm); [|exact L2].
  apply Forall_forall. intros c3 H3. apply in_map_iff in H3. destruct H3 as (c2 & <- & Hin).
  unfold reset_col. rewrite map_length. rewrite Forall_forall in L2. auto.
Qed.

Lemma map_firstn_id n (v : list col) : Forall (fun c => length c = n) v -> map (firstn n) v = v.
Proof.
  induction 1 as [|c v Hc _ IH]; cbn; [reflexivity|].
  rewrite IH. f_equal. apply firstn_all2. lia.
Qed.

Lemma vel_lines_special e c :
  (forall v, c_vel c = Some v -> col_len v = c_npart c) -> vel_lines e true c = c_npart c.
Proof.
  intros H. unfold vel_lines. destruct e; try reflexivity.
  destruct (c_vel c) as [v|]; [apply H; reflexivity|reflexivity].
Qed.

(* with the special case in place, genvel.<ext> holds exactly the velocities the operation
   produced (one line per atom), whether or not the source file had velocities / a box entry *)
Lemma modify_file_complete e dflt mass c ek zm sig z :
  length sig = c_npart c -> Forall (fun zc => length zc = c_npart c) z ->
  (forall v, c_vel c = Some v -> col_len v = c_npart c) ->
  modify_file e true dflt mass c ek zm sig z = modify_std e mass (read_cfile dflt c) ek zm sig z.
Proof.
  intros Hs Hz Hv. unfold modify_file. cbv zeta.
  rewrite (vel_lines_special e c Hv).
  rewrite (map_firstn_id _ _ (modify_std_col_lengths e mass (read_cfile dflt c) ek zm sig z _ Hs Hz)).
  destruct (modify_std e mass (read_cfile dflt c) ek zm sig z) as [[p v b i] k d o]. reflexivity.
Qed.

Lemma modify_file_kin_written e dflt mass c ek zm sig z :
  length sig = c_npart c -> Forall (fun zc => length zc = c_npart c) z ->
  (forall v, c_vel c = Some v -> col_len v = c_npart c) ->
  let r := modify_file e true dflt mass c ek zm sig z in
  r_kin_new r = kinetic mass (f_vel (r_frame r)) /\
  Forall (fun vc => length vc = c_npart c) (f_vel (r_frame r)) /\
  f_pos (r_frame r) = c_pos c /\ f_ids (r_frame r) = c_ids c /\
  f_box (r_frame r) = (match c_box c with Some b => b | None => dflt end).
Proof.
  intros Hs Hz Hv. cbv zeta. rewrite (modify_file_complete e dflt mass c ek zm sig z Hs Hz Hv).
  split; [apply dek_consistent_std|]. split; [apply modify_std_col_lengths; assumption|].
  unfold modify_std, read_cfile. cbn. auto.
Qed.

Lemma sumQ_zero l : Forall (fun x => x == 0) l -> sumQ l == 0.
Proof.
  induction 1 as [|x l Hx _ IH]; [reflexivity|]. rewrite sumQ_cons, Hx, IH. reflexivity.
Qed.

Lemma map2_mult_zero_r : forall a b, Forall (fun x => x == 0) b -> Forall (fun x => x == 0) (map2 Qmult a b).
Proof.
  induction a as [|x a IH]; intros [|y b] H; cbn [map2]; try constructor.
  - inversion H as [|? ? Hy Hb]; subst. rewrite Hy. ring.
  - inversion H; subst. apply IH. assumption.
Qed.

Lemma kin_col_zero m (pc : col) : kin_col m (map (fun _ => 0) pc) == 0.
Proof.
  unfold kin_col. rewrite sumQ_zero; [ring|].
  apply map2_mult_zero_r. apply Forall_forall. intros x Hx. apply in_map_iff in Hx.
  destruct Hx as (? & <- & _). reflexivity.
Qed.

Lemma kinetic_zero_cols m p : kinetic m (zero_cols p) == 0.
Proof.
  unfold kinetic, zero_cols. apply sumQ_zero. apply Forall_forall. intros x Hx.
  apply in_map_iff in Hx. destruct Hx as (c & <- & Hc). apply in_map_iff in Hc.
  destruct Hc as (pc & <- & _). apply kin_col_zero.
Qed.

(* a source file without velocities: kin_old is the kinetic energy of the zero velocities the
   reader returns, i.e. 0, and dek is reported as infinite (GROMACS uses the stored system.ekin
   instead, see dek_consistent_std) -- for either form of the GROMACS special case *)
Lemma modify_file_novel_kin_old e special dflt mass c ek zm sig z :
  c_vel c = None -> e <> Gromacs ->
  let r := modify_file e special dflt mass c ek zm sig z in
  (exists k, r_kin_old r = Some k /\ k == 0) /\ r_dek r = None.
Proof.
  intros Hv He. cbv zeta. unfold modify_file. cbv zeta. cbn [r_kin_old r_dek].
  unfold modify_std, read_cfile. rewrite Hv. cbn [r_kin_old r_dek f_vel].
  pose proof (kinetic_zero_cols mass (c_pos c)) as K.
  destruct e; try (exfalso; apply He; reflexivity);
    (split; [eexists; split; [reflexivity|exact K]|]; rewrite (Qeq_eq_bool _ _ K); reflexivity).
Qed.

(* the GROMACS special case is needed: with a test that never fires, a frame without VELOCITY
   block gets an EMPTY velocity block (it reads back as all zeros: kinetic energy 0) while a
   non-zero kin_new is reported.  Witness: masses 1 and 4, draws 1 and 2 along x. *)
Definition nv_mass : list Q := [1; 4].
Definition nv_file : cfile := mkCfile [[0; 1]; [0; 0]; [0; 0]] None (Some [3; 3; 3]) [1%Z; 2%Z].
Definition nv_sig : list Q := [1; 1 # 2].
Definition nv_z : list col := [[1; 2]; [0; 0]; [0; 0]].

Lemma gromacs_novel_test_never_fires_refuted :
  c_vel nv_file = None /\
  let r := modify_file Gromacs false [] nv_mass nv_file (Some 1) (Some false) nv_sig nv_z in
  f_vel (r_frame r) = [[]; []; []] /\
  ~ r_kin_new r == kinetic nv_mass (f_vel (r_frame r)).
Proof.
  split; [reflexivity|]. cbv zeta. split; [vm_compute; reflexivity|].
  intros H. apply Qeq_bool_iff in H. vm_compute in H. discriminate.
Qed.

Lemma gromacs_novel_witness_special :
  let r := modify_file Gromacs true [] nv_mass nv_file (Some 1) (Some false) nv_sig nv_z in
  Forall2 (Forall2 Qeq) (f_vel (r_frame r)) [[1; 1]; [0; 0]; [0; 0]] /\ r_kin_new r == 5 # 2 /\ r_dek r = Some (r_kin_new r - 1).
Proof.
  cbv zeta. split; [|split].
  - vm_compute. repeat constructor.
  - apply Qeq_bool_iff. vm_compute. reflexivity.
  - reflexivity.
Qed.

(* ================================================================== call sites *)
Lemma sget_sset_same k v s : sget k (sset k v s) = Some v.
Proof.
  induction s as [|[k' v'] s IH]; cbn [sset sget].
  - now rewrite Z.eqb_refl.
  - destruct (Z.eqb k k') eqn:E; cbn [sget]; rewrite E; [reflexivity|exact IH].
Qed.

Lemma sget_sset_other k k' v s : k' <> k -> sget k' (sset k v s) = sget k' s.
Proof.
  intros Hne. induction s as [|[k2 v2] s IH]; cbn [sset sget].
  - destruct (Z.eqb k' k) eqn:E; [apply Z.eqb_eq in E; congruence|reflexivity].
  - destruct (Z.eqb k k2) eqn:E; cbn [sget].
    + apply Z.eqb_eq in E. subst k2. destruct (Z.eqb k' k) eqn:E2; [apply Z.eqb_eq in E2; congruence|reflexivity].
    + destruct (Z.eqb k' k2); [reflexivity|exact IH].
Qed.

(* wire fencing's settings: allowmaxlength becomes True, every other entry is the ensemble's *)
Lemma wf_sub_settings_spec ka km vt s s' : wf_sub_settings ka km vt s = Some s' ->
  sget ka s' = Some vt /\ forall k, k <> ka -> sget k s' = sget k s.
Proof.
  unfold wf_sub_settings. destruct (sget km (sset ka vt s)) as [m|] eqn:Em; [|discriminate].
  intros H. injection H as <-. split.
  - destruct (Z.eq_dec ka km) as [->|Hne].
    + rewrite sget_sset_same in Em. injection Em as <-. apply sget_sset_same.
    + rewrite sget_sset_other by congruence. apply sget_sset_same.
  - intros k Hk. destruct (Z.eq_dec k km) as [->|Hne].
    + rewrite sget_sset_same. rewrite sget_sset_other in Em by exact Hk. now rewrite Em.
    + rewrite sget_sset_other by exact Hne. now apply sget_sset_other.
Qed.

(* every call site: the settings handed to modify_velocities are the ensemble's settings,
   restricted to nothing -- only allowmaxlength may differ *)
Theorem call_site_settings ka km vt mv s hs h k :
  handed ka km vt mv s = Some hs -> In h hs -> k <> ka -> sget k h = sget k s.
Proof.
  unfold handed, handed_with. destruct mv as [|[|] n].
  - intros H. injection H as <-. intros [<-|[]] _. reflexivity.
  - destruct (wf_sub_settings ka km vt s) as [s'|] eqn:E; [|discriminate].
    intros H. injection H as <-. intros Hin Hk. apply repeat_spec in Hin. subst h.
    now apply (proj2 (wf_sub_settings_spec ka km vt s s' E)).
  - intros H. injection H as <-. intros [].
Qed.

(* number of regenerations: one per shooting move, one per jump of a usable wire-fencing move *)
Theorem call_site_count ka km vt mv s hs : handed ka km vt mv s = Some hs ->
  length hs = match mv with MShoot => 1%nat | MWireFencing true n => n | MWireFencing false _ => 0%nat end.
Proof.
  unfold handed, handed_with. destruct mv as [|[|] n].
  - intros H. now injection H as <-.
  - destruct (wf_sub_settings ka km vt s); [|discriminate]. intros H. injection H as <-. apply repeat_length.
  - intros H. now injection H as <-.
Qed.

(* zero momentum requested for the ensemble => every velocity regeneration of every move,
   the ones inside a wire-fencing move included, writes velocities with zero total momentum *)
Theorem call_site_momentum_zero ka km vt kz mv s hs h e mass src ek sig z :
  handed ka km vt mv s = Some hs -> In h hs -> kz <> ka -> sget kz s = Some vt ->
  ~ sumQ mass == 0 -> length sig = length mass -> Forall (fun zc => length zc = length mass) z ->
  Forall (fun c => mom_col mass c == 0)
         (f_vel (r_frame (modify_std e mass src ek (zm_of vt (sget kz h)) sig z))).
Proof.
  intros Hh Hin Hk Hz Hm Hs Hzc. rewrite (call_site_settings ka km vt mv s hs h kz Hh Hin Hk), Hz.
  apply modify_std_momentum_zero; [|exact Hm|exact Hs|exact Hzc].
  unfold zm_of, use_zm. now rewrite Z.eqb_refl.
Qed.

(* the fresh-dictionary variant loses the request: TurtleMD (default False) then keeps the
   centre-of-mass motion *)
Theorem call_site_rebuilt_refuted : exists ka km vt kz s hs h,
  kz <> ka /\ sget kz s = Some vt /\
  handed_with (wf_sub_settings_rebuilt ka km vt) (MWireFencing true 1) s = Some hs /\ In h hs /\
  sget kz h = None /\ use_zm Turtle (zm_of vt (sget kz h)) = false.
Proof.
  exists 0%Z, 1%Z, 1%Z, 2%Z, [(1, 7); (0, 0); (2, 1)]%Z, [[(0, 1); (1, 7)]%Z], [(0, 1); (1, 7)]%Z.
  repeat split; try reflexivity; try (now left). discriminate.
Qed.
