(* Property C06, instance of the generic restart theorem (proofs/RestartP.v, restart_chain_equiv)
   for the executable model of the REPEX bookkeeping (model/RepexM.v).

   State of the whole program:  the bookkeeping (fstate), the scheduler's generator (rng_full) and
   the path store, a function  path number -> weight row  standing for the files under
   load/<pn>/ from which load_paths recomputes the row (calc_cv_vector).

   persist  = what write_toml leaves on disk: cstep, current.active (path number per real slot),
              current.locked (ensembles and path numbers of the in-flight jobs, in issue order,
              WITHOUT worker pins: the real file does not hold them), traj_num, frac, the data
              file, the generator as rng_persist stores it, the path store.
   recover  = load_paths (row of every active path recomputed from the store, all real slots
              idle, ghost locked) + set_rgen (rng_recover true) + the re-issue of the recorded
              jobs in recorded order with the model's own pick_lock, worker pins 0,1,2,.. as
              initiate() hands them out (cworker = workers - toinitiate), each re-issue spawning
              one child of the generator as pick_lock does.

   recover_persist_exact   recover (persist s) is s with the worker pins of the in-flight jobs
                           renumbered by position and the spawn counter advanced by the number of
                           re-issued jobs; nothing else differs (recover_persist_idle: equality when
                           no job is in flight, the one-worker case).
   eqv                     equality up to exactly those two things.
   mstep                   deterministic whole-program step: the operation chosen by ANY function
                           [policy] of the state is applied with the model's step; emitted = the
                           data rows appended by that step.
   restart_chain_model     every chain of stop/restart segments = the straight run, final state up
                           to eqv and emitted rows identical, by instantiating restart_chain_equiv
                           on the states that carry the invariant Good (InvF, store consistent
                           with the state, entropy = seed), which every step and every
                           persist/recover preserves (mstep_Good, recover_persist).
   Hypotheses of restart_chain_model, all on [policy] and only on states satisfying Good:
     policy_eqv    the policy does not read worker pins or the spawn counter (states that are eqv
                   get the same operation up to the pin of a new job, and the same next bit state);
     policy_fresh  a new job is handed to a worker that has none;
     policy_rej    the rows handed back by a rejected move are the stored rows of the old paths.
   view_policy / restart_chain_model_view: the first two hold by construction for every policy that
   sees the state through its pin-free view; ex_pol0 is a concrete one (third hypothesis proved).

   Where the real restart differs from what the task sketch assumed (and how it is modelled here):
   * restart.toml holds no worker pins: after a restart the recorded jobs get pins 0,1,.. by
     position (renum); the model's step reads pins only to refuse a pin that is in use.
   * pick_lock spawns a child stream for every re-issued job, so after a restart that found k jobs
     in flight the spawn counter is k larger than in the straight run (write_toml then stores
     rng_children).  Hence exact equality only with no job in flight (recover_persist_idle).
     In this model the outcome of a job is supplied by [policy] when the job completes; in the
     code it is produced by the job's own stream, and a re-issued job runs on a NEW stream: with
     two or more workers the code does not reproduce the straight run's MD results for the jobs
     that were in flight, whatever the bookkeeping does.  policy_eqv is exactly the assumption
     that abstracts from this.
   * load_paths asserts valid[ens] != 0; [recover] does not model the assertion.  It holds at the
     points where the code writes restart.toml (load_paths_assert_ok), while the theorem allows
     a stop after every operation, also between a pick and the completion of the job.
   * load_paths keeps the frac entry of the active paths only (zeros when missing); here fracs is
     copied whole (the model's fracs has entries for live paths only; not proved here). *)
From Coq Require Import ZArith QArith List Bool Arith Lia.
Import ListNotations.
From Inf Require model.DiskM.
From Inf Require Import base.ListX model.RngM model.RepexM proofs.RepexP proofs.RestartP.
Open Scope nat_scope.

(* ------------------------------------------------------------------ list helpers *)

Lemma set_nth_same_r {A} i (l : list A) d : set_nth i (nth i l d) l = l.
Proof. revert i; induction l as [|a l IH]; intros [|i]; cbn; auto. now rewrite IH. Qed.

Lemma swap_nth_same_r {A} (d : A) i l : swap_nth d i i l = l.
Proof. unfold swap_nth. rewrite (set_nth_same_r i l d). apply set_nth_same_r. Qed.

Lemma nth_map_lt {A B} (f : A -> B) l k d d' : k < length l -> nth k (map f l) d' = f (nth k l d).
Proof.
  revert k; induction l as [|a l IH]; intros k H; cbn in H; [lia|].
  destruct k; cbn; [reflexivity|]. apply IH. lia.
Qed.

Lemma split_last {A} (l : list A) m d : length l = S m -> l = removelast l ++ [nth m l d].
Proof.
  revert m; induction l as [|a l IH]; intros m H; [discriminate|].
  destruct l as [|b l].
  - cbn in H. injection H as <-. reflexivity.
  - destruct m as [|m]; [discriminate|]. cbn [nth].
    change (removelast (a :: b :: l)) with (a :: removelast (b :: l)). cbn [app]. f_equal.
    apply IH. cbn in *. lia.
Qed.

Lemma index_of_inj l : forall c, c < length l ->
  (forall a b, a < length l -> b < length l -> nth a l 0 = nth b l 0 -> a = b) ->
  index_of (nth c l 0) l = Some c.
Proof.
  induction l as [|a l IH]; intros c Hc Hinj; cbn in Hc; [lia|].
  destruct c as [|c]; cbn [nth index_of].
  - now rewrite Nat.eqb_refl.
  - destruct (Nat.eqb_spec a (nth c l 0)) as [E|E].
    + exfalso. assert (0 = S c); [|discriminate]. apply Hinj; cbn; lia.
    + rewrite IH; [reflexivity|lia|].
      intros x y Hx Hy Exy. assert (S x = S y); [|lia]. apply Hinj; cbn; lia.
Qed.

Lemma memn_app x l m : memn x (l ++ m) = memn x l || memn x m.
Proof. apply existsb_app. Qed.

(* ------------------------------------------------------------------ whole-program state, image *)

Record mstate := mkM {
  mf : fstate;                 (* REPEX bookkeeping, fractions, data file, cstep *)
  mg : rng_full;               (* the scheduler's generator *)
  mstore : nat -> list Z       (* load/<pn>/ : the weight row load_paths computes for stored path pn *)
}.

Record image := mkIm {
  im_rec : DiskM.rrec;                  (* cstep, active, locked (ensembles, paths), traj_num *)
  im_fracs : list (nat * qrow);         (* current.frac *)
  im_data : list (nat * qrow);          (* the data file *)
  im_rng : rng_disk;                    (* seed, rng_state, rng_children when not derivable *)
  im_store : nat -> list Z              (* the stored paths *)
}.

Definition unpin (j : job) : list nat * list nat := (jcols j, jpaths j).

(* the worker pins after a restart: position in the recorded list *)
Fixpoint renum (k : nat) (l : list job) : list job :=
  match l with
  | [] => []
  | j :: r => mkJob (jcols j) (jpaths j) k :: renum (S k) r
  end.

Lemma renum_app l m k : renum k (l ++ m) = renum k l ++ renum (length l + k) m.
Proof.
  revert k; induction l as [|j l IH]; intros k; cbn; [reflexivity|].
  rewrite IH. do 3 f_equal. lia.
Qed.

Lemma renum_unpin l : forall k, map unpin (renum k l) = map unpin l.
Proof. induction l as [|j l IH]; intros k; cbn; [reflexivity|]. now rewrite IH. Qed.

Lemma renum_pins l : forall k, map jpin (renum k l) = seq k (length l).
Proof. induction l as [|j l IH]; intros k; cbn; [reflexivity|]. now rewrite IH. Qed.

Lemma renum_length l : forall k, length (renum k l) = length l.
Proof. induction l as [|j l IH]; intros k; cbn; [reflexivity|]. now rewrite IH. Qed.

(* the store agrees with the state: the row in every real slot is the row of the path sitting
   there; the ghost slot holds the dummy path and a row of zeros (never touched) *)
Definition SC (s : rstate) (st : nat -> list Z) : Prop :=
  (forall c, c < size s - 1 -> nth c (W s) [] = st (nth c (trajs s) 0)) /\
  nth (size s - 1) (W s) [] = repeat 0%Z (size s) /\
  nth (size s - 1) (trajs s) 0 = 0.

(* state after load_paths: rows recomputed from the store, every real slot idle, ghost locked *)
Definition base_state (act : list nat) (st : nat -> list Z) (tn : nat) : rstate :=
  mkR (map st act ++ [repeat 0%Z (S (length act))]) (act ++ [0])
      (repeat false (length act) ++ [true]) [] tn.

(* prep_md_items -> pick_lock for the recorded entries, in recorded order *)
Fixpoint reissue (s : rstate) (l : list (list nat * list nat)) (pin : nat) : rstate :=
  match l with
  | [] => s
  | (cols, paths) :: r =>
      match pick_lock s cols paths pin with
      | Some (s1, _) => reissue s1 r (S pin)
      | None => s          (* the code raises; excluded by recover_persist_exact *)
      end
  end.

Section Instance.
  Variable sd : nat.      (* config['simulation']['seed'] *)

  Definition persist (s : mstate) : image :=
    let f := mf s in let c := core f in
    mkIm (DiskM.mkRec (steps_done f) (removelast (trajs c)) (map unpin (locked c)) (traj_num c))
         (fracs f) (data f)
         (rng_persist sd (steps_done f) (length (locked c)) (mg s))
         (mstore s).

  Definition recover (d : image) : mstate :=
    let r := im_rec d in
    let g := rng_recover true (im_rng d) in
    mkM (mkFS (reissue (base_state (DiskM.r_active r) (im_store d) (DiskM.r_trajnum r)) (DiskM.r_locked r) 0)
              (im_fracs d) (im_data d) (DiskM.r_cstep r))
        (mkRF (rf_entropy g) (rf_nchild g + length (DiskM.r_locked r)) (rf_bits g))
        (im_store d).

  Record Good (s : mstate) : Prop := {
    g_inv : InvF (mf s);
    g_store : SC (core (mf s)) (mstore s);
    g_seed : rf_entropy (mg s) = sd
  }.

  (* ---------------------------------------------------------------- re-issue = identity swaps *)

  Lemma ple_id : forall cols paths s0,
    length (W s0) = size s0 -> length (trajs s0) = size s0 ->
    (forall a b, a < size s0 - 1 -> b < size s0 - 1 -> nth a (trajs s0) 0 = nth b (trajs s0) 0 -> a = b) ->
    NoDup cols -> length cols = length paths ->
    (forall k c, nth_error cols k = Some c ->
       c < size s0 - 1 /\ nth_error paths k = Some (nth c (trajs s0) 0) /\ wij s0 c c <> 0%Z /\ is_locked s0 c = false) ->
    exists lk, pick_lock_entries s0 cols paths = Some (mkR (W s0) (trajs s0) lk (locked s0) (traj_num s0)) /\
               length lk = size s0 /\ forall x, nth x lk true = memn x cols || is_locked s0 x.
  Proof.
    induction cols as [|c cr IH]; intros paths s0 LW LT Hinj Nd Hl H.
    - destruct paths; [|discriminate]. exists (locks s0). destruct s0; cbn. auto.
    - destruct paths as [|p pr]; [discriminate|].
      destruct (H 0 c eq_refl) as (Hc & Hp & Hw & Hu). cbn in Hp. injection Hp as ->.
      cbn [pick_lock_entries].
      assert (Hidx : index_of (nth c (trajs s0) 0) (removelast (trajs s0)) = Some c).
      { rewrite <- (nth_removelast (trajs s0) c 0) by lia.
        apply index_of_inj; rewrite removelast_length, LT; [exact Hc|].
        intros a b Ha Hb. rewrite !nth_removelast by lia. now apply Hinj. }
      rewrite Hidx. apply Z.eqb_neq in Hw. rewrite Hw, Hu. cbn [orb].
      unfold swap. rewrite !swap_nth_same_r. unfold lock, is_locked at 1. cbn [locks].
      fold (is_locked s0 c). rewrite Hu.
      set (s1 := mkR (W s0) (trajs s0) (set_nth c true (locks s0)) (locked s0) (traj_num s0)).
      assert (Sz : size s1 = size s0) by (unfold size; cbn; now rewrite set_nth_length).
      inversion Nd as [|? ? Hn Nd']; subst.
      destruct (IH pr s1) as (lk & E & Ll & Hlk).
      + now rewrite Sz. + now rewrite Sz. + rewrite Sz. exact Hinj. + exact Nd'.
      + cbn in Hl. lia.
      + intros k c' Hk. destruct (H (S k) c' Hk) as (A & B & C & D). rewrite Sz.
        split; [exact A|]. split; [exact B|]. split; [exact C|].
        unfold is_locked. cbn [s1 locks]. rewrite nth_set_nth by (unfold size in Hc; lia).
        destruct (Nat.eqb_spec c' c) as [->|]; [|exact D].
        exfalso. apply Hn. eapply nth_error_In; eauto.
      + exists lk. split; [exact E|]. split; [now rewrite Ll|].
        intros x. rewrite Hlk. unfold is_locked at 1. cbn [s1 locks].
        unfold memn. cbn [existsb]. fold (memn x cr).
        destruct (Nat.lt_ge_cases c (length (locks s0))) as [Lc|Lc]; [|unfold size in Hc; lia].
        rewrite nth_set_nth by exact Lc. fold (is_locked s0 x).
        destruct (x =? c), (memn x cr), (is_locked s0 x); reflexivity.
  Qed.

  Lemma Inv_locks c x : Inv c -> x < size c ->
    is_locked c x = (x =? size c - 1) || memn x (cols_of c).
  Proof.
    intros I Hx. destruct (Nat.eqb_spec x (size c - 1)) as [->|Ne]; cbn [orb].
    - exact (wf_ghost _ (inv_wf _ I)).
    - destruct (memn x (cols_of c)) eqn:M.
      + apply memn_In in M. apply Inv_InvP in I.
        assert (M' : In x (cols_of c ++ [])) by now rewrite app_nil_r.
        exact (proj2 (cols_of_locked _ _ _ I M')).
      + apply memn_false in M. destruct (is_locked c x) eqn:L; [|reflexivity].
        exfalso. apply M. apply (inv_cover _ I); [lia|exact L].
  Qed.

  Lemma reissue_spec c : Inv c -> forall todo done s0,
    locked c = done ++ todo ->
    W s0 = W c -> trajs s0 = trajs c -> traj_num s0 = traj_num c -> length (locks s0) = size c ->
    (forall x, x < size c -> is_locked s0 x = (x =? size c - 1) || memn x (concat (map jcols done))) ->
    locked s0 = renum 0 done ->
    reissue s0 (map unpin todo) (length done) = mkR (W c) (trajs c) (locks c) (renum 0 (locked c)) (traj_num c).
  Proof.
    intros I. pose proof (inv_wf _ I) as Wf.
    induction todo as [|jb r IH]; intros done s0 E EW ET En Ll Hlk Elk.
    - cbn. rewrite app_nil_r in E. subst done.
      destruct s0 as [W0 T0 L0 K0 N0]; cbn in *. subst. f_equal.
      apply (nth_ext _ _ true true); [exact Ll|].
      intros x Hx. rewrite Ll in Hx. fold (is_locked c x). rewrite (Inv_locks c x I Hx).
      exact (Hlk x Hx).
    - cbn [map reissue unpin]. fold (unpin jb). cbn [unpin].
      assert (Hjb : In jb (locked c)) by (rewrite E; apply in_or_app; right; now left).
      destruct (inv_jobs _ I jb Hjb) as (Ne & Lj & J).
      assert (Sz0 : size s0 = size c) by exact Ll.
      pose proof (inv_nodup _ I) as Nd. unfold cols_of in Nd. rewrite E, map_app, concat_app in Nd. cbn [map concat] in Nd.
      destruct (ple_id (jcols jb) (jpaths jb) s0) as (lk & Ep & Llk & Hl).
      + now rewrite EW, Sz0, (wf_W _ Wf). + now rewrite ET, Sz0, (wf_T _ Wf).
      + rewrite Sz0, ET. exact (inv_live _ I).
      + apply NoDup_app_r, NoDup_app_l in Nd. exact Nd.
      + exact Lj.
      + intros k x Hk. destruct (J k x Hk) as (A & B & C & D). rewrite Sz0, ET.
        split; [exact A|]. split; [exact C|]. split; [unfold wij in *; now rewrite EW|].
        rewrite Hlk by lia. destruct (Nat.eqb_spec x (size c - 1)); [lia|]. cbn [orb].
        apply memn_false. intros Hin.
        eapply (NoDup_app_disj _ _ x Nd); [exact Hin|]. apply in_or_app. left. eapply nth_error_In; eauto.
      + unfold pick_lock. rewrite Ep. cbn [W trajs locks locked traj_num].
        replace (S (length done)) with (length (done ++ [jb])) by (rewrite app_length; cbn; lia).
        apply IH; cbn [W trajs locks locked traj_num]; auto.
        * now rewrite <- app_assoc.
        * congruence.
        * intros x Hx. unfold is_locked. cbn [locks]. rewrite Hl, (Hlk x Hx).
          rewrite map_app, concat_app, memn_app. cbn [map concat]. rewrite app_nil_r.
          destruct (x =? size c - 1), (memn x (jcols jb)), (memn x (concat (map jcols done))); reflexivity.
        * rewrite renum_app, Elk. cbn. now rewrite Nat.add_0_r.
  Qed.

  Lemma base_state_eq c st : wf c -> SC c st ->
    base_state (removelast (trajs c)) st (traj_num c) =
    mkR (W c) (trajs c) (repeat false (size c - 1) ++ [true]) [] (traj_num c).
  Proof.
    intros Wf (S1 & S2 & S3). destruct Wf as [w1 w2 w3 w4]. unfold base_state.
    assert (Hl : length (removelast (trajs c)) = size c - 1) by (rewrite removelast_length; lia).
    rewrite Hl. replace (S (size c - 1)) with (size c) by lia. f_equal.
    - rewrite (split_last (W c) (size c - 1) []) by lia. rewrite S2. f_equal.
      apply (nth_ext _ _ [] []); rewrite map_length, Hl; [now rewrite removelast_length, w1|].
      intros k Hk. rewrite (nth_map_lt _ _ _ 0) by lia. rewrite !nth_removelast by lia.
      symmetry. now apply S1.
    - rewrite (split_last (trajs c) (size c - 1) 0) at 2 by lia. now rewrite S3.
  Qed.

  (* what a restart gives back, exactly *)
  Theorem recover_persist_exact s : Good s ->
    recover (persist s) =
    mkM (mkFS (mkR (W (core (mf s))) (trajs (core (mf s))) (locks (core (mf s)))
                   (renum 0 (locked (core (mf s)))) (traj_num (core (mf s))))
              (fracs (mf s)) (data (mf s)) (steps_done (mf s)))
        (mkRF (rf_entropy (mg s)) (rf_nchild (mg s) + length (locked (core (mf s)))) (rf_bits (mg s)))
        (mstore s).
  Proof.
    intros [I S E]. unfold InvF in I. set (c := core (mf s)) in *.
    unfold recover, persist. cbn [im_rec im_fracs im_data im_rng im_store DiskM.r_cstep DiskM.r_active DiskM.r_locked DiskM.r_trajnum].
    fold c. rewrite (rng_recover_persist sd _ _ (mg s) E), map_length.
    rewrite (base_state_eq c _ (inv_wf _ I) S).
    pose proof (inv_wf _ I) as Wf.
    rewrite (reissue_spec c I (locked c) [] _ eq_refl); try reflexivity.
    - cbn [locks]. rewrite app_length, repeat_length. cbn. destruct Wf. lia.
    - intros x Hx. unfold is_locked. cbn [locks map concat]. unfold memn at 1. cbn [existsb]. rewrite orb_false_r.
      destruct (Nat.eqb_spec x (size c - 1)) as [->|Nx].
      + rewrite app_nth2; rewrite repeat_length; [|lia]. now rewrite Nat.sub_diag.
      + rewrite app_nth1 by (rewrite repeat_length; lia).
        rewrite (nth_indep _ true false) by (rewrite repeat_length; lia). apply nth_repeat.
  Qed.
End Instance.

Arguments Good sd s : clear implicits.

(* ------------------------------------------------------------------ equality up to pins and spawn counter *)

Definition ej (j : job) : job := mkJob (jcols j) (jpaths j) 0.
Definition eraseR (s : rstate) : rstate := mkR (W s) (trajs s) (locks s) (map ej (locked s)) (traj_num s).
Definition eraseF (f : fstate) : fstate := mkFS (eraseR (core f)) (fracs f) (data f) (steps_done f).

(* equal on everything except the worker pins of the in-flight jobs and the spawn counter *)
Record eqv (a b : mstate) : Prop := {
  e_f : eraseF (mf a) = eraseF (mf b);
  e_ent : rf_entropy (mg a) = rf_entropy (mg b);
  e_bits : rf_bits (mg a) = rf_bits (mg b);
  e_store : mstore a = mstore b
}.

Lemma eqv_refl s : eqv s s.
Proof. constructor; reflexivity. Qed.

Lemma eqv_trans a b c : eqv a b -> eqv b c -> eqv a c.
Proof. intros [A1 A2 A3 A4] [B1 B2 B3 B4]. constructor; congruence. Qed.

Lemma ej_renum l : forall k, map ej (renum k l) = map ej l.
Proof. induction l as [|j l IH]; intros k; cbn; [reflexivity|]. now rewrite IH. Qed.

Lemma unpin_of_ej l m : map ej l = map ej m -> map unpin l = map unpin m.
Proof.
  revert m; induction l as [|a l IH]; intros [|b m] H; cbn in *; try discriminate; [reflexivity|].
  injection H as H1 H2 H3. unfold unpin. rewrite H1, H2. f_equal. now apply IH.
Qed.

(* the invariant does not look at the pins beyond their being distinct *)
Lemma Inv_repin a b :
  W a = W b -> trajs a = trajs b -> locks a = locks b -> traj_num a = traj_num b ->
  map unpin (locked a) = map unpin (locked b) -> NoDup (map jpin (locked a)) -> Inv b -> Inv a.
Proof.
  destruct a as [Wa Ta La Ka Na], b as [Wb Tb Lb Kb Nb]. cbn [W trajs locks locked traj_num].
  intros -> -> -> -> EK Nd I.
  assert (EC : cols_of (mkR Wb Tb Lb Ka Nb) = cols_of (mkR Wb Tb Lb Kb Nb)).
  { unfold cols_of. cbn [locked].
    replace (map jcols Ka) with (map fst (map unpin Ka)) by (rewrite map_map; reflexivity).
    rewrite EK, map_map. reflexivity. }
  assert (Hjob : forall jb, In jb Ka -> exists jb', In jb' Kb /\ jcols jb' = jcols jb /\ jpaths jb' = jpaths jb).
  { intros jb Hjb. apply (in_map unpin) in Hjb. rewrite EK in Hjb. apply in_map_iff in Hjb as (jb' & E & Hin).
    exists jb'. unfold unpin in E. injection E as E1 E2. auto. }
  destruct I as [i1 i2 i3 i4 i5 i6 i7]. constructor.
  - destruct i1 as [w1 w2 w3 w4]. constructor; assumption.
  - intros jb Hjb. destruct (Hjob jb Hjb) as (jb' & Hin & E1 & E2).
    specialize (i2 jb' Hin). unfold job_ok in *. rewrite E1, E2 in i2. exact i2.
  - rewrite EC. exact i3.
  - rewrite EC. exact i4.
  - exact i5.
  - exact i6.
  - exact Nd.
Qed.

Theorem recover_persist sd s : Good sd s ->
  Good sd (recover (persist sd s)) /\ eqv (recover (persist sd s)) s.
Proof.
  intros G. rewrite (recover_persist_exact sd s G). destruct G as [I S E]. split.
  - constructor; cbn [mf mg mstore core rf_entropy]; [|exact S|exact E].
    unfold InvF. cbn [core]. eapply Inv_repin; [..|exact I]; cbn [W trajs locks locked traj_num]; try reflexivity.
    + apply renum_unpin.
    + rewrite renum_pins. apply seq_NoDup.
  - constructor; cbn [mf mg mstore rf_entropy rf_bits]; try reflexivity.
    unfold eraseF, eraseR. cbn [core fracs data steps_done W trajs locks locked traj_num].
    now rewrite ej_renum.
Qed.

(* no job in flight (one worker, stop after a completed step): exact equality *)
Theorem recover_persist_idle sd s : Good sd s -> locked (core (mf s)) = [] -> recover (persist sd s) = s.
Proof.
  intros G L. rewrite (recover_persist_exact sd s G), L. cbn [renum length]. rewrite Nat.add_0_r.
  destruct s as [[[Ws Ts Ls Ks Ns] fr dt sn] [e n b] st]. cbn in *. now subst Ks.
Qed.

(* ------------------------------------------------------------------ the store follows the steps *)

Definition upd (st : nat -> list Z) (k : nat) (v : list Z) : nat -> list Z :=
  fun x => if x =? k then v else st x.

(* PathStorage.output for the accepted paths of a job: numbers traj_num, traj_num+1, .. *)
Fixpoint store_add (st : nat -> list Z) (tn : nat) (rows : list (list Z)) : nat -> list Z :=
  match rows with
  | [] => st
  | r :: rs => store_add (upd st tn r) (S tn) rs
  end.

Definition store_after (s : rstate) (st : nat -> list Z) (o : op) : nat -> list Z :=
  match o with
  | OpTreat _ true rows _ => store_add st (traj_num s) rows
  | _ => st
  end.

Definition fresh (s : rstate) : Prop := forall a, a < size s - 1 -> nth a (trajs s) 0 < traj_num s.

Lemma SC_ext s s' st : W s' = W s -> trajs s' = trajs s -> locks s' = locks s -> SC s st -> SC s' st.
Proof. unfold SC, size. intros -> -> ->. auto. Qed.

Lemma swap_SC s i j st : wf s -> i < size s - 1 -> j < size s - 1 -> SC s st -> SC (swap s i j) st.
Proof.
  intros [w1 w2 w3 w4] Hi Hj (S1 & S2 & S3).
  unfold SC. change (size (swap s i j)) with (size s). cbn [swap W trajs].
  split; [|split].
  - intros c Hc. rewrite !nth_swap_nth by lia. apply S1. apply transp_lt; lia.
  - rewrite nth_swap_nth by lia. rewrite transp_other by lia. exact S2.
  - rewrite nth_swap_nth by lia. rewrite transp_other by lia. exact S3.
Qed.

Lemma take_SC s i j s1 st :
  wf s -> is_locked s i = false -> is_locked s j = false -> take s i j = Some s1 -> SC s st -> SC s1 st.
Proof.
  intros Wf Ui Uj T S0.
  pose proof (swap_SC s i j st Wf (unlocked_real _ _ Wf Ui) (unlocked_real _ _ Wf Uj) S0) as S1.
  unfold take, lock in T. destruct (is_locked (swap s i j) j); [discriminate|]. injection T as <-.
  unfold SC, size in *. cbn [W trajs locks swap] in *. rewrite set_nth_length. exact S1.
Qed.

Lemma pick_SC s c pin s' jb st : wf s -> SC s st -> pick s c pin = Some (s', jb) -> SC s' st.
Proof.
  intros Wf F. unfold pick.
  destruct (pick_enabled s (pk_i c) (pk_j c)) eqn:En; cbn [negb]; [|discriminate].
  destruct (pick_enabled_spec _ _ _ En) as (Ui & Uj & Wn).
  fold (take s (pk_i c) (pk_j c)).
  destruct (take s (pk_i c) (pk_j c)) as [s1|] eqn:T1; [|discriminate].
  pose proof (take_SC _ _ _ _ st Wf Ui Uj T1 F) as F1.
  destruct (take_spec s _ _ s1 Wf Ui Uj T1) as (_ & Wf1 & _).
  destruct (pk_zs c) as [k|].
  - destruct (partner (pk_j c)) as [other|]; [|discriminate].
    destruct (is_locked s1 other); [discriminate|].
    destruct (pick_enabled s1 k other) eqn:En2; cbn [negb]; [|discriminate].
    destruct (pick_enabled_spec _ _ _ En2) as (Uk & Uo & Wn2).
    fold (take s1 k other). destruct (take s1 k other) as [s2|] eqn:T2; [|discriminate].
    pose proof (take_SC _ _ _ _ st Wf1 Uk Uo T2 F1) as F2.
    intros E. injection E as <- _. eapply SC_ext; [| | |exact F2]; reflexivity.
  - intros E.
    assert (E' : s' = mkR (W s1) (trajs s1) (locks s1) (locked s1 ++ [mkJob [pk_j c] [nth (pk_j c) (trajs s1) 0] pin]) (traj_num s1)).
    { destruct (partner (pk_j c)); injection E as <- _; reflexivity. }
    subst s'. eapply SC_ext; [| | |exact F1]; reflexivity.
Qed.

Lemma pick_lock_entries_SC st : forall cols paths s s1,
  wf s -> SC s st -> pick_lock_entries s cols paths = Some s1 -> SC s1 st.
Proof.
  induction cols as [|c cr IH]; intros [|p pr] s s1 Wf F E; cbn [pick_lock_entries] in E;
    try (injection E as <-; exact F).
  destruct (index_of p (removelast (trajs s))) as [idx|]; [|discriminate].
  destruct ((wij s idx c =? 0)%Z || is_locked s idx) eqn:G; [discriminate|].
  apply orb_false_iff in G as [G1 G2].
  fold (take s idx c) in E. destruct (take s idx c) as [s0|] eqn:T; [|discriminate].
  assert (Uc : is_locked s c = false).
  { unfold take, lock in T. destruct (is_locked (swap s idx c) c) eqn:L; [discriminate|]. exact L. }
  destruct (take_spec s _ _ s0 Wf G2 Uc T) as (_ & Wf0 & _).
  eapply IH; [exact Wf0| |exact E]. exact (take_SC s idx c s0 st Wf G2 Uc T F).
Qed.

Lemma pick_lock_SC s cols paths pin s' jb st :
  wf s -> SC s st -> pick_lock s cols paths pin = Some (s', jb) -> SC s' st.
Proof.
  intros Wf F. unfold pick_lock.
  destruct (pick_lock_entries s cols paths) as [s1|] eqn:E; [|discriminate].
  intros H. injection H as <- _. eapply SC_ext; [| | |eapply pick_lock_entries_SC; eauto]; reflexivity.
Qed.

(* add_traj of (pn, row) in column c *)
Lemma install_facts s c pn row lk tn' st st' :
  wf s -> c < size s - 1 -> SC s st -> row = st' pn ->
  (forall a, a < size s - 1 -> a <> c -> st' (nth a (trajs s) 0) = st (nth a (trajs s) 0)) ->
  (forall a, a < size s - 1 -> a <> c -> nth a (trajs s) 0 < tn') -> pn < tn' ->
  let s1 := mkR (set_nth c row (W s)) (set_nth c pn (trajs s)) (set_nth c false (locks s)) lk tn' in
  SC s1 st' /\ wf s1 /\ size s1 = size s /\ fresh s1.
Proof.
  intros [w1 w2 w3 w4] Hc (S1 & S2 & S3) Hrow Hst Hfr Hpn s1.
  assert (Sz : size s1 = size s) by (unfold size; cbn; now rewrite set_nth_length).
  split; [|split; [|split]].
  - unfold SC. rewrite Sz. cbn [s1 W trajs]. split; [|split].
    + intros a Ha. rewrite !nth_set_nth by lia. destruct (Nat.eqb_spec a c) as [->|Na]; [exact Hrow|].
      rewrite Hst by assumption. now apply S1.
    + rewrite nth_set_nth by lia. destruct (Nat.eqb_spec (size s - 1) c); [lia|exact S2].
    + rewrite nth_set_nth by lia. destruct (Nat.eqb_spec (size s - 1) c); [lia|exact S3].
  - constructor; rewrite ?Sz; cbn [s1 W trajs]; rewrite ?set_nth_length; auto.
    unfold is_locked. cbn [s1 locks]. rewrite nth_set_nth by (unfold size in *; lia).
    destruct (Nat.eqb_spec (size s - 1) c); [lia|exact w4].
  - exact Sz.
  - unfold fresh. rewrite Sz. cbn [s1 trajs traj_num]. intros a Ha. rewrite nth_set_nth by lia.
    destruct (Nat.eqb_spec a c); [exact Hpn|now apply Hfr].
Qed.

Lemma treat_one_SC s c p acc row s1 st :
  wf s -> c < size s - 1 -> fresh s -> p < traj_num s -> (acc = false -> row = st p) -> SC s st ->
  treat_one s (mkRes c p acc row) = Some s1 ->
  SC s1 (if acc then upd st (traj_num s) row else st) /\ wf s1 /\ size s1 = size s /\ fresh s1 /\
  traj_num s1 = (if acc then S (traj_num s) else traj_num s).
Proof.
  intros Wf Hc Fr Hp Hrow S0 T. unfold treat_one, add_traj, unlock in T. cbn [r_pn_old r_acc r_col r_row] in T.
  destruct acc; cbn [W trajs locks locked traj_num] in T;
    destruct (nth c row 0%Z =? 0)%Z; try discriminate;
    destruct (is_locked _ c); try discriminate; injection T as <-.
  - destruct (install_facts s c (traj_num s) row (pop_matching p (locked s)) (S (traj_num s)) st (upd st (traj_num s) row) Wf Hc S0)
      as (A & B & C & D).
    + unfold upd. now rewrite Nat.eqb_refl.
    + intros a Ha _. unfold upd. specialize (Fr a Ha). destruct (Nat.eqb_spec (nth a (trajs s) 0) (traj_num s)); [lia|reflexivity].
    + intros a Ha _. specialize (Fr a Ha). lia.
    + lia.
    + auto.
  - destruct (install_facts s c p row (pop_matching p (locked s)) (traj_num s) st st Wf Hc S0)
      as (A & B & C & D); auto.
Qed.

Lemma treat_results_SC acc : forall cols paths rows s st s1,
  wf s -> Forall (fun c => c < size s - 1) cols -> Forall (fun p => p < traj_num s) paths -> fresh s ->
  (acc = false -> rows = map st paths) -> length paths = length cols -> length rows = length cols ->
  SC s st -> treat_results s (results_of cols paths acc rows) = Some s1 ->
  SC s1 (if acc then store_add st (traj_num s) rows else st).
Proof.
  induction cols as [|c cr IH]; intros [|p pr] [|w wr] s st s1 Wf Fc Fp Fr Hrows Lp Lr S0 T; try discriminate.
  - cbn in T. injection T as <-. destruct acc; exact S0.
  - cbn [results_of treat_results] in T.
    destruct (treat_one s (mkRes c p acc w)) as [s0|] eqn:T1; [|discriminate].
    inversion Fc as [|? ? Hc Fc']; subst. inversion Fp as [|? ? Hp Fp']; subst.
    assert (Hw : acc = false -> w = st p).
    { intros Ha. specialize (Hrows Ha). cbn in Hrows. now injection Hrows. }
    destruct (treat_one_SC s c p acc w s0 st Wf Hc Fr Hp Hw S0 T1) as (A & B & C & D & E).
    cbn [length] in Lp, Lr. injection Lp as Lp. injection Lr as Lr.
    assert (Hle : traj_num s <= traj_num s0) by (rewrite E; destruct acc; lia).
    specialize (IH pr wr s0 (if acc then upd st (traj_num s) w else st) s1 B).
    destruct acc.
    + cbn [store_add]. rewrite E in IH. apply IH; auto.
      * now rewrite C.
      * eapply Forall_impl; [|exact Fp']. cbn. intros; lia.
      * discriminate.
    + rewrite E in IH. apply IH; auto.
      * now rewrite C.
      * intros _. specialize (Hrows eq_refl). cbn in Hrows. now injection Hrows.
Qed.

Lemma sort_step_SC s e s1 st :
  Inv s -> SC s st -> first_bad s = Some e -> sort_step s e = Some s1 -> SC s1 st.
Proof.
  intros I F Hb Hs. destruct (first_bad_spec _ _ I Hb) as (Le & We & Ue).
  unfold sort_step in Hs.
  destruct (find_first _ 1 _) as [z|] eqn:Fz; [|discriminate].
  destruct (find_first _ 0 (removelast (W s))) as [t|] eqn:Ft; [|discriminate].
  injection Hs as <-.
  apply (find_first_spec _ _ _ _ []) in Ft as (Lt & _).
  rewrite removelast_length, (wf_W _ (inv_wf _ I)) in Lt.
  apply swap_SC; auto; [exact (inv_wf _ I)|lia].
Qed.

Lemma sort_loop_SC st fuel : forall s it s1 n,
  Inv s -> SC s st -> sort_loop fuel s it = SortOk s1 n -> SC s1 st.
Proof.
  induction fuel as [|f IH]; intros s it s1 n I F H; cbn [sort_loop] in H.
  - destruct (first_bad s); [discriminate|]. injection H as <- _. exact F.
  - destruct (first_bad s) as [e|] eqn:Hb.
    + destruct (sort_step s e) as [s0|] eqn:Hs; [|discriminate].
      eapply IH; [| |exact H].
      * exact (proj1 (sort_step_Inv _ _ _ I Hb Hs)).
      * exact (sort_step_SC s e s0 st I F Hb Hs).
    + injection H as <- _. exact F.
Qed.

(* hypothesis on the rows handed back by a rejected move: the old path is put back, its row is
   the row of the stored path *)
Definition rej_rows_stored (s : rstate) (st : nat -> list Z) (o : op) : Prop :=
  match o with
  | OpTreat k false rows _ => forall jb, nth_error (locked s) k = Some jb -> rows = map st (jpaths jb)
  | _ => True
  end.

Theorem step_SC f o f' st :
  InvF f -> SC (core f) st -> rej_rows_stored (core f) st o -> step f o = Some f' ->
  SC (core f') (store_after (core f) st o).
Proof.
  unfold InvF. intros I F Hg H. pose proof (inv_wf _ I) as Wf.
  destruct o as [c pin|cols paths pin|k acc rows P]; cbn [step] in H.
  - destruct (memn pin _); [discriminate|].
    destruct (pick (core f) c pin) as [[s' jb]|] eqn:Pk; [|discriminate]. cbn in H. injection H as <-.
    cbn [core with_core store_after]. exact (pick_SC _ _ _ _ _ _ Wf F Pk).
  - destruct (memn pin _); [discriminate|]. destruct (negb _); [discriminate|].
    destruct (pick_lock (core f) cols paths pin) as [[s' jb]|] eqn:Pk; [|discriminate]. cbn in H. injection H as <-.
    cbn [core with_core store_after]. exact (pick_lock_SC _ _ _ _ _ _ _ Wf F Pk).
  - destruct (nth_error (locked (core f)) k) as [jb|] eqn:Hk; [|discriminate].
    destruct ((length rows =? length (jcols jb)) && (length (jpaths jb) =? length (jcols jb))) eqn:G; cbn [negb] in H; [|discriminate].
    apply andb_true_iff in G as [G1 G2]. apply Nat.eqb_eq in G1, G2.
    unfold treat_output in H.
    destruct (treat_results (core f) _) as [s1|] eqn:T; [|discriminate].
    destruct (treat_results_Inv _ _ _ _ _ _ I Hk G1 T) as (I1 & _).
    destruct (credit s1 P 0 _ _) as [fr2|]; [|discriminate].
    destruct (if acc then _ else _) as [fr3 dt].
    unfold sort_trajstate in H.
    destruct (sort_loop _ s1 0) as [s2 n| |] eqn:S; try discriminate.
    injection H as <-. cbn [core].
    refine (sort_loop_SC _ _ s1 0 s2 n I1 _ S).
    assert (Hjb : In jb (locked (core f))) by (eapply nth_error_In; eauto).
    destruct (inv_jobs _ I jb Hjb) as (_ & _ & J).
    assert (X : SC s1 (if acc then store_add st (traj_num (core f)) rows else st)).
    { refine (treat_results_SC acc _ _ _ (core f) st s1 Wf _ _ (inv_fresh _ I) _ G2 G1 F T).
      - apply Forall_forall. intros x Hx. apply In_nth_error in Hx as (q & Hq). exact (proj1 (J q x Hq)).
      - apply Forall_forall. intros p Hp. apply In_nth_error in Hp as (q & Hq).
        assert (Hql : q < length (jcols jb)) by (rewrite <- G2; apply nth_error_Some; congruence).
        destruct (nth_error (jcols jb) q) as [x|] eqn:Ex; [|apply nth_error_None in Ex; lia].
        destruct (J q x Ex) as (A & _ & C & _). rewrite Hq in C. injection C as ->.
        now apply (inv_fresh _ I).
      - intros ->. cbn in Hg. exact (Hg jb Hk). }
    destruct acc; exact X.
Qed.

(* ------------------------------------------------------------------ the operations do not read the pins *)

Definition erase_op (o : op) : op :=
  match o with
  | OpPick c _ => OpPick c 0
  | OpPickLock cols paths _ => OpPickLock cols paths 0
  | OpTreat _ _ _ _ => o
  end.

Definition op_pin_fresh (s : rstate) (o : op) : Prop :=
  match o with
  | OpPick _ pin | OpPickLock _ _ pin => ~ In pin (map jpin (locked s))
  | OpTreat _ _ _ _ => True
  end.

Lemma take_erase s i j : take (eraseR s) i j = option_map eraseR (take s i j).
Proof.
  unfold take, lock. change (is_locked (swap (eraseR s) i j) j) with (is_locked (swap s i j) j).
  destruct (is_locked (swap s i j) j); reflexivity.
Qed.

Lemma pick_erase s c pin :
  pick (eraseR s) c 0 = option_map (fun x => (eraseR (fst x), ej (snd x))) (pick s c pin).
Proof.
  unfold pick. cbv zeta.
  change (pick_enabled (eraseR s) (pk_i c) (pk_j c)) with (pick_enabled s (pk_i c) (pk_j c)).
  destruct (pick_enabled s (pk_i c) (pk_j c)); cbn [negb]; [|reflexivity].
  fold (take (eraseR s) (pk_i c) (pk_j c)). fold (take s (pk_i c) (pk_j c)). rewrite take_erase.
  destruct (take s (pk_i c) (pk_j c)) as [s1|]; cbn [option_map]; [|reflexivity].
  destruct (pk_zs c) as [k|].
  - destruct (partner (pk_j c)) as [other|]; [|reflexivity].
    change (is_locked (eraseR s1) other) with (is_locked s1 other). destruct (is_locked s1 other); [reflexivity|].
    change (pick_enabled (eraseR s1) k other) with (pick_enabled s1 k other).
    destruct (pick_enabled s1 k other); cbn [negb]; [|reflexivity].
    fold (take (eraseR s1) k other). fold (take s1 k other). rewrite take_erase.
    destruct (take s1 k other) as [s2|]; cbn [option_map]; [|reflexivity].
    destruct (pk_j c =? 1); cbn; unfold eraseR; cbn; rewrite map_app; reflexivity.
  - destruct (partner (pk_j c)); cbn; unfold eraseR; cbn; rewrite map_app; reflexivity.
Qed.

Lemma ple_erase : forall cols paths s,
  pick_lock_entries (eraseR s) cols paths = option_map eraseR (pick_lock_entries s cols paths).
Proof.
  induction cols as [|c cr IH]; intros [|p pr] s; cbn [pick_lock_entries]; try reflexivity.
  change (trajs (eraseR s)) with (trajs s).
  destruct (index_of p (removelast (trajs s))) as [idx|]; [|reflexivity].
  change (wij (eraseR s) idx c) with (wij s idx c). change (is_locked (eraseR s) idx) with (is_locked s idx).
  destruct ((wij s idx c =? 0)%Z || is_locked s idx); [reflexivity|].
  fold (take (eraseR s) idx c). fold (take s idx c). rewrite take_erase.
  destruct (take s idx c) as [s1|]; cbn [option_map]; [apply IH|reflexivity].
Qed.

Lemma pick_lock_erase s cols paths pin :
  pick_lock (eraseR s) cols paths 0 = option_map (fun x => (eraseR (fst x), ej (snd x))) (pick_lock s cols paths pin).
Proof.
  unfold pick_lock. rewrite ple_erase. destruct (pick_lock_entries s cols paths) as [s1|]; cbn; [|reflexivity].
  unfold eraseR; cbn; rewrite map_app; reflexivity.
Qed.

Lemma pop_matching_erase pn l : pop_matching pn (map ej l) = map ej (pop_matching pn l).
Proof.
  assert (H : forall n l, length l <= n -> pop_matching pn (map ej l) = map ej (pop_matching pn l)).
  { induction n as [|n IH]; intros [|j r] Hl; cbn in Hl; try reflexivity; [lia|].
    cbn [map pop_matching]. change (jpaths (ej j)) with (jpaths j).
    destruct (memn pn (jpaths j)).
    - destruct r as [|j2 r2]; [reflexivity|]. cbn [map]. f_equal. apply IH. cbn in Hl. lia.
    - cbn [map]. f_equal. apply IH. lia. }
  exact (H (length l) l (le_n _)).
Qed.

Lemma add_traj_erase s c pn row : add_traj (eraseR s) c pn row = option_map eraseR (add_traj s c pn row).
Proof.
  unfold add_traj, unlock, is_locked. cbn [eraseR W trajs locks locked traj_num].
  destruct (nth c row 0%Z =? 0)%Z; [reflexivity|].
  destruct (nth c (locks s) true); reflexivity.
Qed.

Lemma treat_one_erase s r : treat_one (eraseR s) r = option_map eraseR (treat_one s r).
Proof.
  unfold treat_one. change (locked (eraseR s)) with (map ej (locked s)). rewrite pop_matching_erase.
  destruct (r_acc r).
  - exact (add_traj_erase (mkR (W s) (trajs s) (locks s) (pop_matching (r_pn_old r) (locked s)) (S (traj_num s))) _ _ _).
  - exact (add_traj_erase (mkR (W s) (trajs s) (locks s) (pop_matching (r_pn_old r) (locked s)) (traj_num s)) _ _ _).
Qed.

Lemma treat_results_erase : forall rs s, treat_results (eraseR s) rs = option_map eraseR (treat_results s rs).
Proof.
  induction rs as [|r rs IH]; intros s; cbn [treat_results]; [reflexivity|].
  rewrite treat_one_erase. destruct (treat_one s r) as [s1|]; cbn [option_map]; [apply IH|reflexivity].
Qed.

Lemma credit_erase s P : forall slots i fr, credit (eraseR s) P i slots fr = credit s P i slots fr.
Proof.
  induction slots as [|pn r IH]; intros i fr; cbn [credit]; [reflexivity|].
  change (is_locked (eraseR s) i) with (is_locked s i).
  destruct (is_locked s i); [apply IH|]. destruct (assoc_get pn fr); [apply IH|reflexivity].
Qed.

Lemma sort_step_erase s e : sort_step (eraseR s) e = option_map eraseR (sort_step s e).
Proof.
  unfold sort_step, is_locked. cbn [eraseR W locks].
  destruct (find_first _ 1 _) as [z|]; [|reflexivity].
  destruct (find_first _ 0 (removelast (W s))) as [t|]; reflexivity.
Qed.

Definition sr_map (r : sort_result) : sort_result :=
  match r with SortOk s n => SortOk (eraseR s) n | x => x end.

Lemma sort_loop_erase fuel : forall s it, sort_loop fuel (eraseR s) it = sr_map (sort_loop fuel s it).
Proof.
  induction fuel as [|f IH]; intros s it; cbn [sort_loop]; change (first_bad (eraseR s)) with (first_bad s).
  - destruct (first_bad s); reflexivity.
  - destruct (first_bad s) as [e|]; [|reflexivity]. rewrite sort_step_erase.
    destruct (sort_step s e) as [s1|]; cbn [option_map]; [apply IH|reflexivity].
Qed.

Definition tr_map (r : treat_result) : treat_result :=
  match r with TreatOk f => TreatOk (eraseF f) | x => x end.

Lemma treat_output_erase f rs acc P : treat_output (eraseF f) rs acc P = tr_map (treat_output f rs acc P).
Proof.
  unfold treat_output. cbn [eraseF core fracs data steps_done]. rewrite treat_results_erase.
  destruct (treat_results (core f) rs) as [s1|]; cbn [option_map]; [|reflexivity].
  change (trajs (eraseR s1)) with (trajs s1). change (traj_num (eraseR (core f))) with (traj_num (core f)).
  change (size (eraseR (core f))) with (size (core f)). rewrite credit_erase.
  destruct (credit s1 P 0 _ _) as [fr2|]; [|reflexivity].
  destruct (if acc then _ else _) as [fr3 dt].
  unfold sort_trajstate. change (size (eraseR s1)) with (size s1). rewrite sort_loop_erase.
  destruct (sort_loop _ s1 0); reflexivity.
Qed.

(* the model's step without the test that the worker pin is free *)
Definition step_nc (f : fstate) (o : op) : option fstate :=
  match o with
  | OpPick c pin => option_map (fun x => with_core f (fst x)) (pick (core f) c pin)
  | OpPickLock cols paths pin =>
      if negb ((length cols =? length paths) && negb (length cols =? 0)) then None else
      option_map (fun x => with_core f (fst x)) (pick_lock (core f) cols paths pin)
  | OpTreat _ _ _ _ => step f o
  end.

Lemma step_nc_eq f o : op_pin_fresh (core f) o -> step f o = step_nc f o.
Proof.
  destruct o as [c pin|cols paths pin|k acc rows P]; cbn [op_pin_fresh step step_nc]; intros H; try reflexivity;
    apply memn_false in H; now rewrite H.
Qed.

Lemma step_nc_erase f o : step_nc (eraseF f) (erase_op o) = option_map eraseF (step_nc f o).
Proof.
  destruct o as [c pin|cols paths pin|k acc rows P]; cbn [erase_op step_nc].
  - cbn [eraseF core]. rewrite (pick_erase (core f) c pin).
    destruct (pick (core f) c pin) as [[s' jb]|]; reflexivity.
  - destruct (negb _); [reflexivity|]. cbn [eraseF core]. rewrite (pick_lock_erase (core f) cols paths pin).
    destruct (pick_lock (core f) cols paths pin) as [[s' jb]|]; reflexivity.
  - cbn [step]. change (locked (core (eraseF f))) with (map ej (locked (core f))).
    rewrite nth_error_map. destruct (nth_error (locked (core f)) k) as [jb|]; cbn [option_map]; [|reflexivity].
    change (jcols (ej jb)) with (jcols jb). change (jpaths (ej jb)) with (jpaths jb).
    destruct (negb _); [reflexivity|]. rewrite treat_output_erase.
    destruct (treat_output f _ acc P); reflexivity.
Qed.

(* two states equal up to pins, two operations equal up to a free pin: same result up to pins *)
Lemma step_erase f g o o' :
  eraseF f = eraseF g -> erase_op o = erase_op o' -> op_pin_fresh (core f) o -> op_pin_fresh (core g) o' ->
  option_map eraseF (step f o) = option_map eraseF (step g o').
Proof.
  intros E Eo F1 F2. rewrite (step_nc_eq f o F1), (step_nc_eq g o' F2), <- !step_nc_erase. now rewrite E, Eo.
Qed.

(* ------------------------------------------------------------------ the chain theorem for the model *)

Lemma run_S {St Out} (stp : St -> St * list Out) n s :
  RestartP.run St Out stp (S n) s =
  (fst (RestartP.run St Out stp n (fst (stp s))), snd (stp s) ++ snd (RestartP.run St Out stp n (fst (stp s)))).
Proof. cbn. destruct (stp s) as [s1 o1]. cbn. destruct (RestartP.run St Out stp n s1). reflexivity. Qed.

Lemma run_chain_cons {St Dk Out} (stp : St -> St * list Out) (ps : St -> Dk) (rc : Dk -> St) k rest s :
  run_chain St Dk Out stp ps rc (k :: rest) s =
  (fst (run_chain St Dk Out stp ps rc rest (rc (ps (fst (RestartP.run St Out stp k s))))),
   snd (RestartP.run St Out stp k s) ++ snd (run_chain St Dk Out stp ps rc rest (rc (ps (fst (RestartP.run St Out stp k s)))))).
Proof.
  cbn. destruct (RestartP.run St Out stp k s) as [s1 o1]. cbn.
  destruct (run_chain St Dk Out stp ps rc rest (rc (ps s1))). reflexivity.
Qed.

Section Chain.
  Variable sd : nat.                         (* the seed of the run *)
  (* the operation the main loop performs next (with the outcome of the scheduler's draws and of
     the MD job it concerns) and the bit-generator state afterwards, as ANY function of the state *)
  Variable policy : mstate -> op * nat.

  (* the policy reads neither the worker pins nor the spawn counter, and the pin it gives to a
     new job is the one it would give up to renaming *)
  Hypothesis policy_eqv : forall a b, Good sd a -> Good sd b -> eqv a b ->
    erase_op (fst (policy a)) = erase_op (fst (policy b)) /\ snd (policy a) = snd (policy b).
  (* a job is handed to a worker that has none *)
  Hypothesis policy_fresh : forall s, Good sd s -> op_pin_fresh (core (mf s)) (fst (policy s)).
  (* a rejected move puts the stored old path back *)
  Hypothesis policy_rej : forall s, Good sd s -> rej_rows_stored (core (mf s)) (mstore s) (fst (policy s)).

  Definition spawns (o : op) : nat := match o with OpTreat _ _ _ _ => 0 | _ => 1 end.

  Definition mstep (s : mstate) : mstate * list (nat * qrow) :=
    let o := fst (policy s) in
    match RepexM.step (mf s) o with
    | Some f' =>
        (mkM f' (mkRF (rf_entropy (mg s)) (rf_nchild (mg s) + spawns o) (snd (policy s)))
             (store_after (core (mf s)) (mstore s) o),
         skipn (length (data (mf s))) (data f'))
    | None => (s, [])          (* the program stops with an error *)
    end.

  Theorem mstep_Good s : Good sd s -> Good sd (fst (mstep s)).
  Proof.
    intros G. unfold mstep. destruct (RepexM.step (mf s) (fst (policy s))) as [f'|] eqn:E; cbn [fst]; [|exact G].
    destruct G as [I S Es]. constructor; cbn [mf mg mstore rf_entropy].
    - exact (step_Inv _ _ _ I E).
    - apply (step_SC _ _ _ _ I S); [|exact E]. apply policy_rej. now constructor.
    - exact Es.
  Qed.

  Lemma spawns_erase o o' : erase_op o = erase_op o' -> spawns o = spawns o'.
  Proof. destruct o, o'; cbn; intros H; try reflexivity; discriminate. Qed.

  Lemma store_after_erase s s' st o o' :
    traj_num s = traj_num s' -> erase_op o = erase_op o' -> store_after s st o = store_after s' st o'.
  Proof.
    intros Et H. destruct o, o'; cbn in H; try discriminate; try reflexivity.
    injection H as -> -> -> ->. cbn. now rewrite Et.
  Qed.

  Theorem mstep_eqv a b : Good sd a -> Good sd b -> eqv a b ->
    eqv (fst (mstep a)) (fst (mstep b)) /\ snd (mstep a) = snd (mstep b).
  Proof.
    intros Ga Gb E. destruct (policy_eqv a b Ga Gb E) as (Eo & Eb).
    pose proof (step_erase (mf a) (mf b) _ _ (e_f _ _ E) Eo (policy_fresh a Ga) (policy_fresh b Gb)) as H.
    unfold mstep.
    destruct (RepexM.step (mf a) (fst (policy a))) as [fa|]; destruct (RepexM.step (mf b) (fst (policy b))) as [fb|];
      cbn [option_map] in H; try discriminate; cbn [fst snd].
    - assert (H' : eraseF fa = eraseF fb) by congruence. clear H. rename H' into H.
      destruct E as [E1 E2 E3 E4]. split.
      + constructor; cbn [mf mg mstore rf_entropy rf_bits]; auto.
        rewrite E4. apply store_after_erase; [|exact Eo].
        exact (f_equal (fun f => traj_num (core f)) E1).
      + pose proof (f_equal data H) as Hd. pose proof (f_equal data E1) as Hd0. cbn in Hd, Hd0. now rewrite Hd, Hd0.
    - split; [exact E|reflexivity].
  Qed.

  (* the instance of the generic theorem: states carrying the invariant *)
  Definition St' : Type := { s : mstate | Good sd s }.
  Definition Dk' : Type := { d : image | Good sd (recover d) }.
  Definition step' (x : St') : St' * list (nat * qrow) :=
    (exist _ (fst (mstep (proj1_sig x))) (mstep_Good _ (proj2_sig x)), snd (mstep (proj1_sig x))).
  Definition persist' (x : St') : Dk' :=
    exist _ (persist sd (proj1_sig x)) (proj1 (recover_persist sd _ (proj2_sig x))).
  Definition recover' (y : Dk') : St' := exist _ (recover (proj1_sig y)) (proj2_sig y).
  Definition eqv' (x y : St') : Prop := eqv (proj1_sig x) (proj1_sig y).

  Lemma run_sig n : forall x : St',
    proj1_sig (fst (RestartP.run St' _ step' n x)) = fst (RestartP.run mstate _ mstep n (proj1_sig x)) /\
    snd (RestartP.run St' _ step' n x) = snd (RestartP.run mstate _ mstep n (proj1_sig x)).
  Proof.
    induction n as [|n IH]; intros x; [split; reflexivity|].
    rewrite !run_S. cbn [fst snd]. destruct (IH (fst (step' x))) as (A & B).
    split; [exact A|]. now rewrite B.
  Qed.

  Lemma run_chain_sig : forall segs (x : St'),
    proj1_sig (fst (run_chain St' Dk' _ step' persist' recover' segs x)) =
      fst (run_chain mstate image _ mstep (persist sd) recover segs (proj1_sig x)) /\
    snd (run_chain St' Dk' _ step' persist' recover' segs x) =
      snd (run_chain mstate image _ mstep (persist sd) recover segs (proj1_sig x)).
  Proof.
    induction segs as [|k rest IH]; intros x; [split; reflexivity|].
    rewrite !run_chain_cons. cbn [fst snd].
    destruct (run_sig k x) as (A & B).
    destruct (IH (recover' (persist' (fst (RestartP.run St' _ step' k x))))) as (C & D).
    cbn [recover' persist' proj1_sig] in C, D. rewrite A in C, D.
    split; [exact C|]. now rewrite B, D.
  Qed.

  (* the invariant holds along every run *)
  Theorem run_Good n s : Good sd s -> Good sd (fst (RestartP.run mstate _ mstep n s)).
  Proof.
    intros G. destruct (run_sig n (exist _ s G)) as (A & _). cbn [proj1_sig] in A. rewrite <- A.
    exact (proj2_sig _).
  Qed.

  (* every chain of stops and restarts of the model = the straight run of the model *)
  Theorem restart_chain_model : forall segs s, Good sd s ->
    eqv (fst (run_chain mstate image _ mstep (persist sd) recover segs s))
        (fst (RestartP.run mstate _ mstep (fold_right Nat.add 0 segs) s)) /\
    snd (run_chain mstate image _ mstep (persist sd) recover segs s) =
    snd (RestartP.run mstate _ mstep (fold_right Nat.add 0 segs) s).
  Proof.
    intros segs s G. set (x := exist _ s G : St').
    destruct (restart_chain_equiv St' Dk' _ step' persist' recover' eqv') with (segs := segs) (s := x) as (A & B).
    - intros y. apply eqv_refl.
    - intros a b c. apply eqv_trans.
    - intros a b E. exact (mstep_eqv _ _ (proj2_sig a) (proj2_sig b) E).
    - intros y. exact (proj2 (recover_persist sd _ (proj2_sig y))).
    - unfold eqv' in A.
      destruct (run_chain_sig segs x) as (C & D). destruct (run_sig (fold_right Nat.add 0 segs) x) as (C' & D').
      rewrite C, C' in A. rewrite D, D' in B. exact (conj A B).
  Qed.
End Chain.

(* ------------------------------------------------------------------ policies that satisfy the hypotheses *)

(* any policy that looks at the state through its pin-free view, at the bit state and at the
   store, and hands a new job to a worker that has none, satisfies policy_eqv and policy_fresh *)
Definition set_pin (o : op) (pin : nat) : op :=
  match o with
  | OpPick c _ => OpPick c pin
  | OpPickLock cols paths _ => OpPickLock cols paths pin
  | OpTreat _ _ _ _ => o
  end.

Definition free_pin (l : list nat) : nat := S (list_max l).

Lemma free_pin_fresh l : ~ In (free_pin l) l.
Proof.
  intros H. unfold free_pin in H.
  pose proof (proj1 (list_max_le l (list_max l)) (le_n _)) as F.
  rewrite Forall_forall in F. specialize (F _ H). lia.
Qed.

Definition view_policy (pol0 : fstate -> nat -> (nat -> list Z) -> op * nat) (s : mstate) : op * nat :=
  let r := pol0 (eraseF (mf s)) (rf_bits (mg s)) (mstore s) in
  (set_pin (fst r) (free_pin (map jpin (locked (core (mf s))))), snd r).

Lemma view_policy_eqv pol0 a b : eqv a b ->
  erase_op (fst (view_policy pol0 a)) = erase_op (fst (view_policy pol0 b)) /\
  snd (view_policy pol0 a) = snd (view_policy pol0 b).
Proof.
  intros [E1 E2 E3 E4]. unfold view_policy. cbn [fst snd]. rewrite E1, E3, E4. split; [|reflexivity].
  destruct (fst (pol0 (eraseF (mf b)) (rf_bits (mg b)) (mstore b))); reflexivity.
Qed.

Lemma view_policy_fresh pol0 s : op_pin_fresh (core (mf s)) (fst (view_policy pol0 s)).
Proof.
  unfold view_policy. cbn [fst].
  destruct (fst (pol0 (eraseF (mf s)) (rf_bits (mg s)) (mstore s))); cbn; try apply free_pin_fresh; exact I.
Qed.

Theorem restart_chain_model_view sd pol0 :
  (forall s, Good sd s -> rej_rows_stored (core (mf s)) (mstore s) (fst (view_policy pol0 s))) ->
  forall segs s, Good sd s ->
    eqv (fst (run_chain mstate image _ (mstep (view_policy pol0)) (persist sd) recover segs s))
        (fst (RestartP.run mstate _ (mstep (view_policy pol0)) (fold_right Nat.add 0 segs) s)) /\
    snd (run_chain mstate image _ (mstep (view_policy pol0)) (persist sd) recover segs s) =
    snd (RestartP.run mstate _ (mstep (view_policy pol0)) (fold_right Nat.add 0 segs) s).
Proof.
  intros Hrej. apply restart_chain_model; [| |exact Hrej].
  - intros a b _ _. apply view_policy_eqv.
  - intros s _. apply view_policy_fresh.
Qed.

(* load_paths asserts valid[ens] != 0 for every active path.  At the points where the code writes
   restart.toml (end of treat_output, after sort_trajstate: first_bad = None) the assertion holds
   for the rows recomputed from the store. *)
Lemma load_paths_assert_ok s st : Inv s -> SC s st -> first_bad s = None ->
  forall c, c < size s - 1 -> nth c (st (nth c (trajs s) 0)) 0%Z <> 0%Z.
Proof.
  intros I (S1 & _) Fb c Hc. rewrite <- S1 by exact Hc. exact (first_bad_none s I Fb c Hc).
Qed.

(* ------------------------------------------------------------------ examples *)

Definition ex_store (pn : nat) : list Z :=
  match pn with
  | 0 => [1;0;0;0]%Z | 1 => [0;1;0;0]%Z | 2 => [0;1;1;0]%Z | _ => []
  end.

Definition ex_fracs : list (nat * qrow) :=
  [(0, [1;0;0;0]%Q); (1, [0;1#2;0;0]%Q); (2, [0;1#2;1;0]%Q)].

(* three ensembles ([0-], [0+], [1+]) and the ghost; path 1 in [0+] is being worked on by worker 5 *)
Definition ex_core : rstate :=
  mkR [[1;0;0;0]; [0;1;0;0]; [0;1;1;0]; [0;0;0;0]]%Z [0;1;2;0] [false;true;false;true] [mkJob [1] [1] 5] 3.

Definition ex_state : mstate := mkM (mkFS ex_core ex_fracs [] 4) (mkRF 7 5 42) ex_store.

(* what the restart gives back: worker 0 now holds the job, one more stream has been spawned *)
Definition ex_state_back : mstate :=
  mkM (mkFS (mkR (W ex_core) (trajs ex_core) (locks ex_core) [mkJob [1] [1] 0] 3) ex_fracs [] 4) (mkRF 7 6 42) ex_store.

Example ex_recover_persist : recover (persist 7 ex_state) = ex_state_back.
Proof. reflexivity. Qed.

Example ex_image_locked : DiskM.r_locked (im_rec (persist 7 ex_state)) = [([1], [1])]
                          /\ DiskM.r_active (im_rec (persist 7 ex_state)) = [0; 1; 2]
                          /\ rd_children (im_rng (persist 7 ex_state)) = None.
Proof. repeat split. Qed.

Example ex_eqv : eqv (recover (persist 7 ex_state)) ex_state.
Proof. constructor; reflexivity. Qed.

(* nothing in flight: exact equality *)
Definition ex_idle : mstate :=
  mkM (mkFS (mkR (W ex_core) (trajs ex_core) [false;false;false;true] [] 3) ex_fracs [] 4) (mkRF 7 4 42) ex_store.

Example ex_recover_persist_idle : recover (persist 7 ex_idle) = ex_idle.
Proof. reflexivity. Qed.

Lemma ex_Good : Good 7 ex_state.
Proof.
  constructor; [|repeat split|reflexivity].
  - unfold InvF. cbn [mf core ex_state]. constructor.
    + constructor; cbn; try reflexivity; lia.
    + intros jb [<-|[]]. split; [discriminate|]. split; [reflexivity|].
      intros [|[|k]] c H; cbn in H; try discriminate. injection H as <-. cbn. repeat split; try lia; try discriminate.
    + cbn. constructor; [intros []|constructor].
    + intros c Hc Hl. cbn in *. destruct c as [|[|[|c]]]; try discriminate; try lia; try (now left).
    + intros a b Ha Hb. cbn in *. destruct a as [|[|[|a]]], b as [|[|[|b]]]; cbn; intros; try lia; try discriminate.
    + intros a Ha. cbn in *. destruct a as [|[|[|a]]]; cbn; lia.
    + cbn. constructor; [intros []|constructor].
  - intros c Hc. cbn in *. destruct c as [|[|[|c]]]; try reflexivity; lia.
Qed.

(* a concrete policy: complete the oldest job in flight (accepted when bits/2 is even: the new
   path gets the row of the old one; rejected otherwise: the stored row of the old path), or, when
   no job is in flight, pick the path of slot (bits mod 3) for its own ensemble *)
Definition ex_P : list qrow := [[1;0;0;0]; [0;1#2;1#2;0]; [0;1#2;1#2;0]; [0;0;0;0]]%Q.

Definition ex_pol0 (f : fstate) (bits : nat) (st : nat -> list Z) : op * nat :=
  match locked (core f) with
  | [] => (OpPick (mkPick (bits mod 3) (bits mod 3) None) 0, S bits)
  | jb :: _ =>
      if Nat.even (bits / 2) then (OpTreat 0 true (map (fun c => nth c (W (core f)) []) (jcols jb)) ex_P, S bits)
      else (OpTreat 0 false (map st (jpaths jb)) ex_P, S bits)
  end.

Lemma ex_pol0_rej s : rej_rows_stored (core (mf s)) (mstore s) (fst (view_policy ex_pol0 s)).
Proof.
  unfold view_policy, ex_pol0. cbn [fst eraseF core eraseR locked].
  destruct (locked (core (mf s))) as [|jb r] eqn:L; cbn [map]; [exact I|].
  destruct (Nat.even (rf_bits (mg s) / 2)); cbn [fst set_pin rej_rows_stored]; [exact I|].
  rewrite L. intros jb' H. cbn in H. injection H as <-. reflexivity.
Qed.

(* so the theorem applies to it, from the example state, for every chain of stops *)
Example ex_chain_theorem : forall segs,
  snd (run_chain mstate image _ (mstep (view_policy ex_pol0)) (persist 7) recover segs ex_state) =
  snd (RestartP.run mstate _ (mstep (view_policy ex_pol0)) (fold_right Nat.add 0 segs) ex_state).
Proof.
  intros segs. exact (proj2 (restart_chain_model_view 7 ex_pol0 (fun s _ => ex_pol0_rej s) segs ex_state ex_Good)).
Qed.

(* and by computation on one chain: four stops and restarts (and a final one) in eight steps, accepted and rejected moves; rows are emitted *)
Definition ex_rows_chain := snd (run_chain mstate image _ (mstep (view_policy ex_pol0)) (persist 7) recover [1; 2; 1; 2; 2] ex_state).
Definition ex_rows_straight := snd (RestartP.run mstate _ (mstep (view_policy ex_pol0)) 8 ex_state).

Example ex_chain_computed : ex_rows_chain = ex_rows_straight /\ map fst ex_rows_straight = [1; 2].
Proof. vm_compute. split; reflexivity. Qed.

(* what differs at the end of a chain: only the spawn counter (two of the restarts above found a job
   in flight and re-issued it with a fresh stream) and, while jobs are in flight, the worker pins *)
Definition ex_final_chain := fst (run_chain mstate image _ (mstep (view_policy ex_pol0)) (persist 7) recover [1; 2; 1; 2; 1] ex_state).
Definition ex_final_straight := fst (RestartP.run mstate _ (mstep (view_policy ex_pol0)) 7 ex_state).

Example ex_chain_final :
  mf ex_final_chain = mf ex_final_straight /\
  mg ex_final_chain = mkRF 7 10 49 /\ mg ex_final_straight = mkRF 7 8 49.
Proof. vm_compute. repeat split. Qed.

Print Assumptions recover_persist_exact.
Print Assumptions recover_persist.
Print Assumptions recover_persist_idle.
Print Assumptions mstep_Good.
Print Assumptions mstep_eqv.
Print Assumptions restart_chain_model.
Print Assumptions restart_chain_model_view.
Print Assumptions ex_chain_theorem.
