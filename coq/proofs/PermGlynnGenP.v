(* Glynn's formula for the permanent, all sizes:
     glynn_plain n M == perm n M      (spec/PermS.v, both sides)
   Proof: generalise the Glynn sum to m affine forms in r sign variables,
     SS r m c A = sum_{s in signs r} (prod s) * prod_{k<m} (c k + sum_{i<r} s_i * A i k),
   peel the first sign variable, telescope the difference of the two products, and
   re-index with [skip]:
     SS (S r) (S m) c A == sum_{k<=m} 2 * A 0 k * SS r m c'_k (rows 1.. of A, column k deleted).
   Hence SS r m c A == 0 for m < r, and SS r r c A == 2^r * perm r A.  The plain Glynn
   sum fixes the first sign to +1; the map s -> -s on sign vectors gives the factor 2. *)
From Coq Require Import ZArith QArith List Arith Lia Setoid Morphisms.
From Inf Require Import spec.PermS proofs.PermSpecP.
Import ListNotations.
Open Scope Q_scope.

(* ------------------------------------------------------------------ *)
(* sums over lists, sums over sign vectors                              *)

Definition lsum (l : list Q) : Q := fold_right Qplus 0 l.
Definition lprod (l : list Q) : Q := fold_right Qmult 1 l.
Definition ssum (r : nat) (f : list Q -> Q) : Q := lsum (map f (signs r)).

Lemma lsum_cons : forall x l, lsum (x :: l) = x + lsum l.
Proof. reflexivity. Qed.

Lemma lprod_cons : forall x l, lprod (x :: l) = x * lprod l.
Proof. reflexivity. Qed.

Lemma qprod_S : forall n f, qprod (S n) f = qprod n f * f n.
Proof. reflexivity. Qed.

Lemma qprod_ext : forall n f g,
  (forall k, (k < n)%nat -> f k == g k) -> qprod n f == qprod n g.
Proof.
  induction n as [|n IH]; intros f g H.
  - reflexivity.
  - rewrite !qprod_S. rewrite (IH f g).
    + rewrite (H n); [reflexivity | lia].
    + intros k Hk. apply H. lia.
Qed.

Lemma lsum_map_ext : forall (l : list (list Q)) f g,
  (forall s, In s l -> f s == g s) -> lsum (map f l) == lsum (map g l).
Proof.
  induction l as [|a l IH]; intros f g H.
  - reflexivity.
  - cbn [map]. rewrite !lsum_cons. rewrite (IH f g).
    + rewrite (H a); [reflexivity | left; reflexivity].
    + intros s Hs. apply H. right. exact Hs.
Qed.

Lemma ssum_ext_in : forall r f g,
  (forall s, In s (signs r) -> f s == g s) -> ssum r f == ssum r g.
Proof. intros r f g H. unfold ssum. apply lsum_map_ext. exact H. Qed.

Lemma ssum_ext : forall r f g, (forall s, f s == g s) -> ssum r f == ssum r g.
Proof. intros r f g H. apply ssum_ext_in. intros s _. apply H. Qed.

Lemma lsum_map_plus : forall (l : list (list Q)) f g,
  lsum (map (fun s => f s + g s) l) == lsum (map f l) + lsum (map g l).
Proof.
  induction l as [|a l IH]; intros f g.
  - cbn. ring.
  - cbn [map]. rewrite !lsum_cons. rewrite IH. ring.
Qed.

Lemma lsum_map_scale : forall (l : list (list Q)) c f,
  lsum (map (fun s => c * f s) l) == c * lsum (map f l).
Proof.
  induction l as [|a l IH]; intros c f.
  - cbn. ring.
  - cbn [map]. rewrite !lsum_cons. rewrite IH. ring.
Qed.

Lemma lsum_map_zero : forall (l : list (list Q)), lsum (map (fun _ => 0) l) == 0.
Proof.
  induction l as [|a l IH].
  - reflexivity.
  - cbn [map]. rewrite lsum_cons. rewrite IH. ring.
Qed.

Lemma ssum_plus : forall r f g, ssum r (fun s => f s + g s) == ssum r f + ssum r g.
Proof. intros. apply lsum_map_plus. Qed.

Lemma ssum_scale : forall r c f, ssum r (fun s => c * f s) == c * ssum r f.
Proof. intros. apply lsum_map_scale. Qed.

Lemma ssum_zero : forall r, ssum r (fun _ => 0) == 0.
Proof. intros. apply lsum_map_zero. Qed.

Lemma ssum_qsum : forall r m (F : list Q -> nat -> Q),
  ssum r (fun s => qsum m (fun k => F s k)) == qsum m (fun k => ssum r (fun s => F s k)).
Proof.
  intros r. induction m as [|m IH]; intros F.
  - cbn [qsum]. apply ssum_zero.
  - cbn [qsum]. rewrite ssum_plus. rewrite IH. reflexivity.
Qed.

(* peeling the first sign *)
Lemma lsum_flat : forall (l : list (list Q)) f,
  lsum (map f (flat_map (fun s => [1 :: s; (-1) :: s]) l)) ==
  lsum (map (fun s => f (1 :: s) + f ((-1) :: s)) l).
Proof.
  induction l as [|a l IH]; intros f.
  - reflexivity.
  - cbn [flat_map app map]. rewrite !lsum_cons. rewrite IH. ring.
Qed.

Lemma ssum_S : forall r f,
  ssum (S r) f == ssum r (fun s => f (1 :: s) + f ((-1) :: s)).
Proof. intros r f. unfold ssum. cbn [signs]. apply lsum_flat. Qed.

Lemma signs_length : forall r s, In s (signs r) -> length s = r.
Proof.
  induction r as [|r IH]; intros s H.
  - cbn in H. destruct H as [H | []]. subst s. reflexivity.
  - cbn [signs] in H. apply in_flat_map in H. destruct H as (t & Ht & Hs).
    cbn in Hs. destruct Hs as [Hs | [Hs | []]]; subst s; cbn [length]; f_equal; apply IH; exact Ht.
Qed.

(* ------------------------------------------------------------------ *)
(* the telescoping identity                                             *)

Definition sgn (k j : nat) : Q := if (j <? k)%nat then -1 else 1.

Lemma skip_ge : forall k m, (k <= m)%nat -> skip k m = S m.
Proof. intros k m H. unfold skip. dtests; lia. Qed.

Lemma sgn_ge : forall k m, (k <= m)%nat -> sgn k m = 1.
Proof. intros k m H. unfold sgn. dtests; [lia | reflexivity]. Qed.

Lemma telescope : forall m a b,
  qprod (S m) (fun k => b k + a k) - qprod (S m) (fun k => b k - a k) ==
  qsum (S m) (fun k => 2 * a k * qprod m (fun j => b (skip k j) + sgn k j * a (skip k j))).
Proof.
  induction m as [|m IH]; intros a b.
  - cbn [qprod qsum]. ring.
  - rewrite (qprod_S (S m)). rewrite (qprod_S (S m) (fun k => b k - a k)).
    rewrite (qsum_S (S m)).
    assert (E1 : qprod (S m) (fun j => b (skip (S m) j) + sgn (S m) j * a (skip (S m) j)) ==
                 qprod (S m) (fun k => b k - a k)).
    { apply qprod_ext. intros j Hj. unfold skip, sgn.
      dtests; try lia; ring. }
    rewrite E1.
    assert (E2 : qsum (S m) (fun k => 2 * a k *
                    qprod (S m) (fun j => b (skip k j) + sgn k j * a (skip k j))) ==
                 (b (S m) + a (S m)) *
                 qsum (S m) (fun k => 2 * a k *
                    qprod m (fun j => b (skip k j) + sgn k j * a (skip k j)))).
    { rewrite <- qsum_scale. apply qsum_ext. intros k Hk.
      rewrite (qprod_S m).
      rewrite (skip_ge k m), (sgn_ge k m) by lia. ring. }
    rewrite E2. rewrite <- IH. ring.
Qed.

(* ------------------------------------------------------------------ *)
(* affine forms in r sign variables                                     *)

Definition aff (r : nat) (c : nat -> Q) (A : mat) (s : list Q) (k : nat) : Q :=
  c k + qsum r (fun i => nth i s 0 * A i k).

Definition SS (r m : nat) (c : nat -> Q) (A : mat) : Q :=
  ssum r (fun s => lprod s * qprod m (aff r c A s)).

Lemma aff_cons : forall r c A x s k,
  aff (S r) c A (x :: s) k == aff r c (fun i => A (S i)) s k + x * A O k.
Proof. intros. unfold aff. rewrite qsum_shift. cbn [nth]. ring. Qed.

Lemma SS_peel0 : forall r m c A,
  SS (S r) m c A ==
  ssum r (fun s => lprod s *
     (qprod m (fun k => aff r c (fun i => A (S i)) s k + A O k) -
      qprod m (fun k => aff r c (fun i => A (S i)) s k - A O k))).
Proof.
  intros r m c A. unfold SS. rewrite ssum_S. apply ssum_ext. intros s.
  rewrite !lprod_cons.
  rewrite (qprod_ext m (aff (S r) c A (1 :: s))
             (fun k => aff r c (fun i => A (S i)) s k + A O k)).
  2:{ intros k _. rewrite aff_cons. ring. }
  rewrite (qprod_ext m (aff (S r) c A ((-1) :: s))
             (fun k => aff r c (fun i => A (S i)) s k - A O k)).
  2:{ intros k _. rewrite aff_cons. ring. }
  ring.
Qed.

Lemma SS_peel : forall r m c A,
  SS (S r) (S m) c A ==
  qsum (S m) (fun k => 2 * A O k *
     SS r m (fun j => c (skip k j) + sgn k j * A O (skip k j))
            (fun i j => A (S i) (skip k j))).
Proof.
  intros r m c A. rewrite SS_peel0. unfold SS.
  transitivity (ssum r (fun s => qsum (S m) (fun k => 2 * A O k *
     (lprod s * qprod m (aff r (fun j => c (skip k j) + sgn k j * A O (skip k j))
                               (fun i j => A (S i) (skip k j)) s))))).
  - apply ssum_ext. intros s.
    rewrite (telescope m (A O) (aff r c (fun i => A (S i)) s)).
    rewrite <- qsum_scale. apply qsum_ext. intros k Hk.
    rewrite (qprod_ext m
      (fun j => aff r c (fun i => A (S i)) s (skip k j) + sgn k j * A O (skip k j))
      (aff r (fun j => c (skip k j) + sgn k j * A O (skip k j))
             (fun i j => A (S i) (skip k j)) s)).
    + ring.
    + intros j _. unfold aff. ring.
  - rewrite ssum_qsum. apply qsum_ext. intros k Hk. rewrite ssum_scale. reflexivity.
Qed.

Lemma SS_0_cols : forall r c A, SS (S r) 0 c A == 0.
Proof.
  intros r c A. rewrite SS_peel0. cbn [qprod].
  rewrite <- (ssum_zero r). apply ssum_ext. intros s. ring.
Qed.

(* (L) fewer forms than sign variables: the sum vanishes *)
Lemma SS_few : forall r m c A, (m < r)%nat -> SS r m c A == 0.
Proof.
  induction r as [|r IH]; intros m c A H.
  - lia.
  - destruct m as [|m].
    + apply SS_0_cols.
    + rewrite SS_peel. rewrite <- (qsum_zero (S m)). apply qsum_ext. intros k Hk.
      rewrite IH by lia. ring.
Qed.

Fixpoint pow2 (n : nat) : Q :=
  match n with
  | O => 1
  | S k => 2 * pow2 k
  end.

(* (T) as many forms as sign variables: 2^r * perm, whatever the constants *)
Lemma SS_square : forall r c A, SS r r c A == pow2 r * perm r A.
Proof.
  induction r as [|r IH]; intros c A.
  - unfold SS, ssum. cbn. ring.
  - rewrite SS_peel. rewrite perm_S. cbn [pow2].
    rewrite <- qsum_scale. apply qsum_ext. intros k Hk.
    rewrite IH.
    rewrite (perm_ext r (fun i j => A (S i) (skip k j)) (minor 0 k A)).
    + ring.
    + intros a b _ _. unfold minor. reflexivity.
Qed.

(* ------------------------------------------------------------------ *)
(* the symmetry s -> -s of the sign vectors                             *)

Lemma ssum_opp : forall r f, ssum r (fun s => f (map Qopp s)) == ssum r f.
Proof.
  induction r as [|r IH]; intros f.
  - reflexivity.
  - rewrite !ssum_S. cbn [map].
    change (- (1))%Q with (-1)%Q. change (- (-1))%Q with 1%Q.
    rewrite (IH (fun t => f ((-1) :: t) + f (1 :: t))).
    apply ssum_ext. intros s. ring.
Qed.

Fixpoint msign (n : nat) : Q :=
  match n with
  | O => 1
  | S k => - msign k
  end.

Lemma msign_sq : forall n, msign n * msign n == 1.
Proof. induction n as [|n IH]; cbn [msign]; [ring | rewrite <- IH; ring]. Qed.

Lemma lprod_opp : forall s, lprod (map Qopp s) == msign (length s) * lprod s.
Proof.
  induction s as [|x s IH].
  - cbn. ring.
  - cbn [map length msign]. rewrite !lprod_cons. rewrite IH. ring.
Qed.

Lemma qprod_opp : forall n f, qprod n (fun k => - f k) == msign n * qprod n f.
Proof.
  induction n as [|n IH]; intros f.
  - cbn. ring.
  - rewrite !qprod_S. cbn [msign]. rewrite IH. ring.
Qed.

Lemma aff0_opp : forall r A s k,
  aff r (fun _ => 0) A (map Qopp s) k == - aff r (fun _ => 0) A s k.
Proof.
  intros r A s k. unfold aff.
  rewrite (qsum_ext r (fun i => nth i (map Qopp s) 0 * A i k)
                      (fun i => (-(1)) * (nth i s 0 * A i k))).
  - rewrite qsum_scale. ring.
  - intros i _. change 0 with (Qopp 0) at 1. rewrite map_nth. ring.
Qed.

(* ------------------------------------------------------------------ *)
(* Glynn's formula                                                      *)

Lemma pow2_inject : forall k, inject_Z (2 ^ Z.of_nat k) == pow2 k.
Proof.
  induction k as [|k IH].
  - reflexivity.
  - rewrite Nat2Z.inj_succ. rewrite Z.pow_succ_r by apply Nat2Z.is_nonneg.
    rewrite inject_Z_mult. rewrite IH. cbn [pow2]. reflexivity.
Qed.

Lemma pow2_nonzero : forall k, ~ pow2 k == 0.
Proof.
  induction k as [|k IH]; cbn [pow2].
  - discriminate.
  - intros H. apply IH. apply (Qmult_integral 2) in H. destruct H as [H | H]; [discriminate H | exact H].
Qed.

(* the sum of glynn_plain, before the division *)
Definition glynn_sum (k : nat) (M : mat) : Q :=
  ssum k (fun d => lprod d *
     qprod (S k) (fun j => M O j + qsum k (fun i => nth i d 0 * M (S i) j))).

Lemma glynn_sum_half : forall k M,
  SS (S k) (S k) (fun _ => 0) M == 2 * glynn_sum k M.
Proof.
  intros k M. rewrite SS_peel0.
  set (B := aff k (fun _ => 0) (fun i => M (S i))).
  assert (EP : ssum k (fun s => lprod s * qprod (S k) (fun j => B s j + M O j)) == glynn_sum k M).
  { unfold glynn_sum. apply ssum_ext. intros s.
    rewrite (qprod_ext (S k) (fun j => B s j + M O j)
               (fun j => M O j + qsum k (fun i => nth i s 0 * M (S i) j))).
    - reflexivity.
    - intros j _. unfold B, aff. ring. }
  assert (EM : ssum k (fun s => lprod s * qprod (S k) (fun j => B s j - M O j)) == - glynn_sum k M).
  { rewrite <- EP.
    rewrite <- (ssum_opp k (fun s => lprod s * qprod (S k) (fun j => B s j - M O j))).
    transitivity (ssum k (fun s => (-(1)) * (lprod s * qprod (S k) (fun j => B s j + M O j)))).
    2:{ rewrite ssum_scale. ring. }
    apply ssum_ext_in. intros s Hs. apply signs_length in Hs.
    rewrite lprod_opp. rewrite Hs.
    rewrite (qprod_ext (S k) (fun j => B (map Qopp s) j - M O j)
                             (fun j => - (B s j + M O j))).
    2:{ intros j _. unfold B. rewrite aff0_opp. ring. }
    rewrite qprod_opp. cbn [msign].
    generalize (msign_sq k). generalize (msign k). intros x Hx.
    set (P := qprod (S k) (fun j => B s j + M O j)).
    transitivity (- (x * x) * (lprod s * P)); [ring | rewrite Hx; ring]. }
  transitivity (ssum k (fun s => lprod s * qprod (S k) (fun j => B s j + M O j) +
                                 (-(1)) * (lprod s * qprod (S k) (fun j => B s j - M O j)))).
  - apply ssum_ext. intros s. ring.
  - rewrite ssum_plus. rewrite ssum_scale. rewrite EP, EM. ring.
Qed.

Lemma glynn_sum_eq : forall k M, glynn_sum k M == pow2 k * perm (S k) M.
Proof.
  intros k M. pose proof (glynn_sum_half k M) as H. rewrite SS_square in H.
  cbn [pow2] in H.
  apply (Qmult_inj_l _ _ 2); [discriminate|]. rewrite <- H. ring.
Qed.

Theorem glynn_plain_eq_perm : forall n M, glynn_plain n M == perm n M.
Proof.
  intros [|k] M.
  - reflexivity.
  - change (glynn_plain (S k) M) with (glynn_sum k M / inject_Z (2 ^ Z.of_nat k)).
    rewrite pow2_inject. rewrite glynn_sum_eq.
    field. apply pow2_nonzero.
Qed.

Print Assumptions glynn_plain_eq_perm.
