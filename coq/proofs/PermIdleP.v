(* The idle block of the result of inf_retis is the result of inf_retis on the idle sub-matrix
   alone (no locks), re-inserted between zero rows and columns; for every input. *)
From Coq Require Import ZArith NArith QArith List Bool Arith Lia.
From Inf Require Import model.PermM.
Import ListNotations.
Open Scope Q_scope.

(* input_mat[~locks, :][:, ~locks] *)
Definition unlocked (W : matrix) (locks : list bool) : matrix :=
  map (keep (map negb locks)) (keep (map negb locks) W).

(* zero rows and columns at the locked positions *)
Definition reinsert (locks : list bool) (m : nat) (o : matrix) : matrix :=
  map (fun r => np_insert r (insert_list_from 0 locks) 0)
      (np_insert o (insert_list_from 0 locks) (repeat 0 m)).

Lemma keep_length_le : forall {A} mask (l : list A), (length (keep mask l) <= count_true mask)%nat.
Proof.
  intros A. unfold count_true. induction mask as [|b mask IH]; intros l; [cbn; lia|].
  destruct l as [|x l]; [cbn; lia|]. destruct b; cbn; specialize (IH l); lia.
Qed.

Lemma keep_length_eq : forall {A} mask (l : list A), length l = length mask ->
  length (keep mask l) = count_true mask.
Proof.
  intros A. unfold count_true. induction mask as [|b mask IH]; intros l Hl; [destruct l; reflexivity|].
  destruct l as [|x l]; [discriminate|]. injection Hl as Hl. destruct b; cbn; rewrite (IH l Hl); reflexivity.
Qed.

Lemma keep_all_true : forall {A} (l : list A) m, (length l <= m)%nat -> keep (repeat true m) l = l.
Proof.
  intros A. induction l as [|x l IH]; intros m H; [destruct m; reflexivity|].
  destruct m as [|m]; [cbn in H; lia|]. cbn. f_equal. apply IH. cbn in H. lia.
Qed.

Lemma map_negb_repeat_false : forall m, map negb (repeat false m) = repeat true m.
Proof. induction m as [|m IH]; [reflexivity|]. cbn. f_equal. exact IH. Qed.

Lemma count_true_firstn_repeat_false : forall k m, count_true (firstn k (repeat false m)) = O.
Proof.
  unfold count_true. induction k as [|k IH]; intros m; [reflexivity|]. destruct m as [|m]; [reflexivity|]. cbn. apply IH.
Qed.

Lemma insert_list_from_repeat_false : forall m p, insert_list_from p (repeat false m) = [].
Proof. induction m as [|m IH]; intros p; [reflexivity|]. cbn. apply IH. Qed.

Lemma np_insert_from_nil : forall {A} (z : A) l p, np_insert_from p l [] z = l.
Proof. intros A z. induction l as [|x l IH]; intros p; [reflexivity|]. cbn. f_equal. apply IH. Qed.

Lemma unlocked_idem : forall W locks, length W = length locks ->
  unlocked (unlocked W locks) (repeat false (length (unlocked W locks))) = unlocked W locks.
Proof.
  intros W locks Hl. set (U := unlocked W locks). unfold unlocked at 1.
  rewrite map_negb_repeat_false. rewrite (keep_all_true U) by lia.
  assert (Hm : length U = count_true (map negb locks)).
  { unfold U, unlocked. rewrite map_length. apply keep_length_eq. rewrite map_length. exact Hl. }
  transitivity (map (fun x : list Q => x) U); [|apply map_id]. apply map_ext_in. intros row Hin.
  apply keep_all_true. rewrite Hm. unfold U, unlocked in Hin. apply in_map_iff in Hin as (r & <- & _).
  apply keep_length_le.
Qed.

Theorem inf_retis_with_idle_block : forall rp mi pi off W locks,
  length W = length locks ->
  inf_retis_with rp mi pi off W locks =
  option_map (reinsert locks (length (unlocked W locks)))
    (inf_retis_with rp mi pi (off - count_true (firstn off locks)) (unlocked W locks)
                    (repeat false (length (unlocked W locks)))).
Proof.
  intros rp mi pi off W locks Hl. unfold inf_retis_with. cbv zeta.
  fold (unlocked W locks).
  fold (unlocked (unlocked W locks) (repeat false (length (unlocked W locks)))).
  rewrite (unlocked_idem W locks Hl).
  rewrite count_true_firstn_repeat_false, Nat.sub_0_r, insert_list_from_repeat_false.
  destruct (inf_core rp mi pi (off - count_true (firstn off locks)) (unlocked W locks)) as [o|]; [|reflexivity].
  cbn [option_map]. unfold reinsert. f_equal.
  assert (E : map (fun r : list Q => np_insert r [] 0)
                  (np_insert o [] (repeat 0 (length (unlocked W locks)))) = o).
  { unfold np_insert. rewrite np_insert_from_nil.
    transitivity (map (fun x : list Q => x) o); [|apply map_id].
    apply map_ext. intros r. apply np_insert_from_nil. }
  rewrite E. reflexivity.
Qed.

