(* Block structure: the permanent and the permanent ratios Pspec of a block lower-triangular
   matrix, every size.

   W is block lower-triangular with respect to a partition of [0,n) into consecutive blocks
   when W a b = 0 whenever column b lies in a LATER block than row a.  Then
     - perm n W is the product of the permanents of the diagonal blocks;
     - Pspec n W i j is Pspec of the diagonal block containing (i,j) when i and j lie in the
       same block, and 0 otherwise - also below the diagonal blocks, where W i j may be
       non-zero - provided the diagonal blocks have non-zero permanents.
   First for two blocks of sizes p and q, then for a list of block sizes by induction.
   This is what justifies the block-wise evaluation in REPEX_state.inf_retis (find_blocks and
   the  for start, stop, direction in blocks  loop). *)
From Coq Require Import QArith List Arith Lia Setoid Morphisms.
From Inf Require Import spec.PermS proofs.PermSpecP proofs.PermQuickSpecP.
Import ListNotations.
Open Scope Q_scope.

(* the diagonal sub-matrix starting at (off, off) *)
Definition sub (off : nat) (W : mat) : mat := fun a b => W (off + a)%nat (off + b)%nat.

(* two blocks, sizes p and q: the upper right p x q corner vanishes *)
Definition blt2 (p q : nat) (W : mat) : Prop :=
  forall a b, (a < p)%nat -> (p <= b < p + q)%nat -> W a b == 0.

(* ------------------------------------------------------------------ *)
(* sums                                                                 *)

Lemma qsum_app : forall n m f, qsum (n + m) f == qsum n f + qsum m (fun k => f (n + k)%nat).
Proof.
  intros n m f. induction m as [|m IH].
  - rewrite Nat.add_0_r. cbn [qsum]. ring.
  - rewrite Nat.add_succ_r. rewrite !qsum_S. rewrite IH. ring.
Qed.

Lemma qsum_all_zero : forall n f, (forall k, (k < n)%nat -> f k == 0) -> qsum n f == 0.
Proof.
  intros n f H. rewrite (qsum_ext n f (fun _ => 0) H). apply qsum_zero.
Qed.

Lemma perm_zero_row : forall n W i, (i < n)%nat -> (forall b, (b < n)%nat -> W i b == 0) ->
  perm n W == 0.
Proof.
  intros n W i Hi H. rewrite (perm_expand_row n W i Hi). apply qsum_all_zero.
  intros k Hk. rewrite (H k Hk). ring.
Qed.

(* ------------------------------------------------------------------ *)
(* the permanent of two blocks                                          *)

Theorem perm_two_blocks : forall p q W, blt2 p q W ->
  perm (p + q) W == perm p W * perm q (sub p W).
Proof.
  induction p as [|p IH]; intros q W H.
  - cbn [plus perm]. rewrite Qmult_1_l. apply perm_ext. intros a b _ _. reflexivity.
  - set (f := fun j => W O j * perm (p + q) (minor 0 j W)).
    transitivity (qsum (S p) f + qsum q (fun k => f (S p + k)%nat)).
    { exact (qsum_app (S p) q f). }
    rewrite (qsum_all_zero q (fun k => f (S p + k)%nat)).
    2:{ intros k Hk. unfold f. rewrite (H O (S p + k)%nat) by lia. ring. }
    rewrite Qplus_0_r. rewrite perm_S. rewrite Qmult_comm, <- qsum_scale.
    apply qsum_ext. intros j Hj. unfold f.
    rewrite (IH q (minor 0 j W)).
    + rewrite (perm_ext q (sub p (minor 0 j W)) (sub (S p) W)).
      * ring.
      * intros a b _ _. unfold sub, minor. rewrite skip_0.
        assert (E : skip j (p + b) = (S p + b)%nat) by (unfold skip; dtests; lia).
        rewrite E. reflexivity.
    + intros a b Ha Hb. unfold minor. rewrite skip_0.
      assert (E : skip j b = S b) by (unfold skip; dtests; lia).
      rewrite E. apply H; lia.
Qed.

(* ------------------------------------------------------------------ *)
(* minors of a two-block matrix                                         *)

Lemma minor_blt2_upper : forall p q W i j, blt2 p q W -> (i < p)%nat -> (j < p)%nat ->
  blt2 (p - 1) q (minor i j W).
Proof.
  intros p q W i j H Hi Hj a b Ha Hb. unfold minor. apply H; unfold skip; dtests; lia.
Qed.

Lemma minor_blt2_lower : forall p q W i j, blt2 p q W -> (p <= i)%nat -> (p <= j)%nat ->
  blt2 p (q - 1) (minor i j W).
Proof.
  intros p q W i j H Hi Hj a b Ha Hb. unfold minor. apply H; unfold skip; dtests; lia.
Qed.

(* ------------------------------------------------------------------ *)
(* Pspec of two blocks                                                  *)

(* inside the first block *)
Theorem Pspec_two_blocks_upper : forall p q W i j, blt2 p q W ->
  ~ perm q (sub p W) == 0 -> (i < p)%nat -> (j < p)%nat ->
  Pspec (p + q) W i j == Pspec p W i j.
Proof.
  intros p q W i j H HD Hi Hj. unfold Pspec.
  rewrite (perm_two_blocks p q W H).
  replace (pred (p + q)) with (p - 1 + q)%nat by lia.
  rewrite (perm_two_blocks (p - 1) q (minor i j W) (minor_blt2_upper p q W i j H Hi Hj)).
  rewrite (perm_ext q (sub (p - 1) (minor i j W)) (sub p W)).
  - replace (pred p) with (p - 1)%nat by lia. unfold Qdiv. rewrite Qinv_mult_distr.
    generalize (/ perm p W). intros iA. field. exact HD.
  - intros a b _ _. unfold sub, minor.
    assert (E1 : skip i (p - 1 + a) = (p + a)%nat) by (unfold skip; dtests; lia).
    assert (E2 : skip j (p - 1 + b) = (p + b)%nat) by (unfold skip; dtests; lia).
    rewrite E1, E2. reflexivity.
Qed.

(* inside the second block *)
Theorem Pspec_two_blocks_lower : forall p q W i j, blt2 p q W ->
  ~ perm p W == 0 -> (p <= i < p + q)%nat -> (p <= j < p + q)%nat ->
  Pspec (p + q) W i j == Pspec q (sub p W) (i - p) (j - p).
Proof.
  intros p q W i j H HA Hi Hj. unfold Pspec.
  rewrite (perm_two_blocks p q W H).
  replace (pred (p + q)) with (p + (q - 1))%nat by lia.
  rewrite (perm_two_blocks p (q - 1) (minor i j W) (minor_blt2_lower p q W i j H ltac:(lia) ltac:(lia))).
  rewrite (perm_ext p (minor i j W) W).
  2:{ intros a b Ha Hb. unfold minor.
      assert (E1 : skip i a = a) by (unfold skip; dtests; lia).
      assert (E2 : skip j b = b) by (unfold skip; dtests; lia).
      rewrite E1, E2. reflexivity. }
  rewrite (perm_ext (q - 1) (sub p (minor i j W)) (minor (i - p) (j - p) (sub p W))).
  - replace (pred q) with (q - 1)%nat by lia.
    assert (E : sub p W (i - p)%nat (j - p)%nat = W i j).
    { unfold sub. replace (p + (i - p))%nat with i by lia. replace (p + (j - p))%nat with j by lia.
      reflexivity. }
    rewrite E.
    unfold Qdiv. rewrite Qinv_mult_distr.
    generalize (/ perm q (sub p W)). intros iD. field. exact HA.
  - intros a b _ _. unfold sub, minor.
    assert (E1 : skip i (p + a) = (p + skip (i - p) a)%nat) by (unfold skip; dtests; lia).
    assert (E2 : skip j (p + b) = (p + skip (j - p) b)%nat) by (unfold skip; dtests; lia).
    rewrite E1, E2. reflexivity.
Qed.

(* above the diagonal blocks: the weight itself is zero *)
Theorem Pspec_two_blocks_upper_right : forall p q W i j, blt2 p q W ->
  (i < p)%nat -> (p <= j < p + q)%nat -> Pspec (p + q) W i j == 0.
Proof. intros p q W i j H Hi Hj. apply Pspec_zero_weight. apply H; assumption. Qed.

(* below the diagonal blocks: the minor has a zero permanent whatever the weight *)
Theorem perm_minor_two_blocks_lower_left : forall p q W i j, blt2 p q W ->
  (p <= i < p + q)%nat -> (j < p)%nat -> perm (pred (p + q)) (minor i j W) == 0.
Proof.
  intros p q W i j H Hi Hj.
  replace (pred (p + q)) with (p - 1 + q)%nat by lia.
  assert (Hb : blt2 (p - 1) q (minor i j W)).
  { intros a b Ha Hb. unfold minor. apply H; unfold skip; dtests; lia. }
  rewrite (perm_two_blocks (p - 1) q (minor i j W) Hb).
  rewrite (perm_zero_row q (sub (p - 1) (minor i j W)) 0); [ring | lia |].
  intros b Hb'. unfold sub, minor. apply H; unfold skip; dtests; lia.
Qed.

Theorem Pspec_two_blocks_lower_left : forall p q W i j, blt2 p q W ->
  (p <= i < p + q)%nat -> (j < p)%nat -> Pspec (p + q) W i j == 0.
Proof.
  intros p q W i j H Hi Hj. unfold Pspec.
  rewrite (perm_minor_two_blocks_lower_left p q W i j H Hi Hj). unfold Qdiv. ring.
Qed.

(* ------------------------------------------------------------------ *)
(* any number of consecutive blocks, given by the list of their sizes   *)

Definition total (bs : list nat) : nat := fold_right plus O bs.

(* block lower-triangular from offset off on: for every block, the entries to its right vanish *)
Fixpoint blt (bs : list nat) (off : nat) (W : mat) : Prop :=
  match bs with
  | [] => True
  | s :: r =>
      (forall a b, (off <= a < off + s)%nat -> (off + s <= b < off + s + total r)%nat -> W a b == 0)
      /\ blt r (off + s) W
  end.

(* product of the permanents of the diagonal blocks *)
Fixpoint blockperm (bs : list nat) (off : nat) (W : mat) : Q :=
  match bs with
  | [] => 1
  | s :: r => perm s (sub off W) * blockperm r (off + s) W
  end.

(* every diagonal block has a non-zero permanent *)
Fixpoint blocks_nz (bs : list nat) (off : nat) (W : mat) : Prop :=
  match bs with
  | [] => True
  | s :: r => ~ perm s (sub off W) == 0 /\ blocks_nz r (off + s) W
  end.

(* the claimed value of Pspec at (i,j), off <= i, j *)
Fixpoint Pblocks (bs : list nat) (off : nat) (W : mat) (i j : nat) : Q :=
  match bs with
  | [] => 0
  | s :: r =>
      if (i <? off + s)%nat then
        (if (j <? off + s)%nat then Pspec s (sub off W) (i - off) (j - off) else 0)
      else if (j <? off + s)%nat then 0
      else Pblocks r (off + s) W i j
  end.

Lemma sub_sub : forall n off s W, perm n (sub s (sub off W)) == perm n (sub (off + s) W).
Proof.
  intros n off s W. apply perm_ext. intros a b _ _. unfold sub.
  rewrite !Nat.add_assoc. reflexivity.
Qed.

Lemma blt_head : forall s r off W, blt (s :: r) off W -> blt2 s (total r) (sub off W).
Proof.
  intros s r off W [H _] a b Ha Hb. unfold sub. apply H; lia.
Qed.

Theorem perm_blocks_from : forall bs off W, blt bs off W ->
  perm (total bs) (sub off W) == blockperm bs off W.
Proof.
  induction bs as [|s r IH]; intros off W H.
  - reflexivity.
  - cbn [total fold_right blockperm]. fold (total r).
    rewrite (perm_two_blocks s (total r) (sub off W) (blt_head s r off W H)).
    rewrite sub_sub. rewrite (IH (off + s)%nat W (proj2 H)). reflexivity.
Qed.

Theorem perm_blocks : forall bs W, blt bs 0 W -> perm (total bs) W == blockperm bs 0 W.
Proof.
  intros bs W H. rewrite <- (perm_blocks_from bs 0 W H). apply perm_ext. intros a b _ _. reflexivity.
Qed.

Lemma blockperm_nz : forall bs off W, blocks_nz bs off W -> ~ blockperm bs off W == 0.
Proof.
  induction bs as [|s r IH]; intros off W H.
  - cbn. discriminate.
  - cbn [blockperm]. destruct H as [H1 H2]. intros E. apply Qmult_integral in E.
    destruct E as [E | E]; [exact (H1 E) | exact (IH _ _ H2 E)].
Qed.

Theorem Pspec_blocks_from : forall bs off W i j, blt bs off W -> blocks_nz bs off W ->
  (off <= i < off + total bs)%nat -> (off <= j < off + total bs)%nat ->
  Pspec (total bs) (sub off W) (i - off) (j - off) == Pblocks bs off W i j.
Proof.
  induction bs as [|s r IH]; intros off W i j H Hnz Hi Hj.
  - cbn [total fold_right] in Hi. lia.
  - cbn [total fold_right] in *. fold (total r) in *. cbn [Pblocks].
    pose proof (blt_head s r off W H) as H2. destruct Hnz as [Hnz1 Hnz2]. destruct H as [_ Hr].
    assert (Hrest : ~ perm (total r) (sub s (sub off W)) == 0).
    { rewrite sub_sub. rewrite (perm_blocks_from r (off + s)%nat W Hr). apply blockperm_nz. exact Hnz2. }
    destruct (Nat.ltb_spec i (off + s)) as [Li | Li]; destruct (Nat.ltb_spec j (off + s)) as [Lj | Lj].
    + apply Pspec_two_blocks_upper; try assumption; lia.
    + apply Pspec_two_blocks_upper_right; try assumption; lia.
    + apply Pspec_two_blocks_lower_left; try assumption; lia.
    + rewrite (Pspec_two_blocks_lower s (total r) (sub off W) (i - off) (j - off) H2 Hnz1) by lia.
      rewrite <- (IH (off + s)%nat W i j Hr Hnz2) by lia.
      replace (i - off - s)%nat with (i - (off + s))%nat by lia.
      replace (j - off - s)%nat with (j - (off + s))%nat by lia.
      apply Pspec_ext; try lia. intros a b _ _. unfold sub. rewrite !Nat.add_assoc. reflexivity.
Qed.

Theorem Pspec_blocks : forall bs W i j, blt bs 0 W -> blocks_nz bs 0 W ->
  (i < total bs)%nat -> (j < total bs)%nat ->
  Pspec (total bs) W i j == Pblocks bs 0 W i j.
Proof.
  intros bs W i j H Hnz Hi Hj.
  rewrite <- (Pspec_blocks_from bs 0 W i j H Hnz) by lia.
  rewrite !Nat.sub_0_r. apply Pspec_ext; try assumption. intros a b _ _. reflexivity.
Qed.

(* ------------------------------------------------------------------ *)
(* reading Pblocks: same block -> Pspec of that block, different blocks -> 0 *)

(* (start, size) of the block containing index i >= off, if any *)
Fixpoint block_of (bs : list nat) (off : nat) (i : nat) : option (nat * nat) :=
  match bs with
  | [] => None
  | s :: r => if (i <? off + s)%nat then Some (off, s) else block_of r (off + s) i
  end.

Lemma block_of_some : forall bs off i, (off <= i < off + total bs)%nat ->
  exists o s, block_of bs off i = Some (o, s) /\ (o <= i < o + s)%nat.
Proof.
  induction bs as [|s r IH]; intros off i Hi; cbn [total fold_right] in Hi; [lia|]. fold (total r) in Hi.
  cbn [block_of]. destruct (Nat.ltb_spec i (off + s)) as [L | L].
  - exists off, s. split; [reflexivity | lia].
  - apply IH. lia.
Qed.

Lemma block_of_ge : forall bs off i o s, block_of bs off i = Some (o, s) -> (off <= o)%nat /\ (i < o + s)%nat.
Proof.
  induction bs as [|s0 r IH]; intros off i o s H; [discriminate|].
  cbn [block_of] in H. destruct (Nat.ltb_spec i (off + s0)) as [L | L].
  - injection H as <- <-. lia.
  - apply IH in H. lia.
Qed.

Theorem Pblocks_same_block : forall bs off W i j o s, (off <= i)%nat -> (off <= j)%nat ->
  block_of bs off i = Some (o, s) -> block_of bs off j = Some (o, s) ->
  Pblocks bs off W i j = Pspec s (sub o W) (i - o) (j - o).
Proof.
  induction bs as [|s0 r IH]; intros off W i j o s Hi Hj Bi Bj; [discriminate|].
  cbn [block_of Pblocks] in *.
  destruct (Nat.ltb_spec i (off + s0)) as [Li | Li]; destruct (Nat.ltb_spec j (off + s0)) as [Lj | Lj].
  - injection Bi as <- <-. reflexivity.
  - injection Bi as <- <-. apply block_of_ge in Bj. lia.
  - injection Bj as <- <-. apply block_of_ge in Bi. lia.
  - apply IH; assumption || lia.
Qed.

Theorem Pblocks_other_block : forall bs off W i j, (off <= i)%nat -> (off <= j)%nat ->
  block_of bs off i <> block_of bs off j -> Pblocks bs off W i j = 0.
Proof.
  induction bs as [|s0 r IH]; intros off W i j Hi Hj B; [reflexivity|].
  cbn [block_of Pblocks] in *.
  destruct (Nat.ltb_spec i (off + s0)) as [Li | Li]; destruct (Nat.ltb_spec j (off + s0)) as [Lj | Lj];
    try reflexivity.
  - congruence.
  - apply IH; assumption || lia.
Qed.

(* the two user-facing statements *)
Corollary Pspec_same_block : forall bs W i j o s, blt bs 0 W -> blocks_nz bs 0 W ->
  block_of bs 0 i = Some (o, s) -> block_of bs 0 j = Some (o, s) ->
  (i < total bs)%nat -> (j < total bs)%nat ->
  Pspec (total bs) W i j == Pspec s (sub o W) (i - o) (j - o).
Proof.
  intros bs W i j o s H Hnz Bi Bj Hi Hj. rewrite (Pspec_blocks bs W i j H Hnz Hi Hj).
  rewrite (Pblocks_same_block bs 0 W i j o s) by (assumption || lia). reflexivity.
Qed.

Corollary Pspec_other_block : forall bs W i j, blt bs 0 W -> blocks_nz bs 0 W ->
  (i < total bs)%nat -> (j < total bs)%nat ->
  block_of bs 0 i <> block_of bs 0 j ->
  Pspec (total bs) W i j == 0.
Proof.
  intros bs W i j H Hnz Hi Hj B. rewrite (Pspec_blocks bs W i j H Hnz Hi Hj).
  rewrite (Pblocks_other_block bs 0 W i j) by (assumption || lia). reflexivity.
Qed.

Print Assumptions perm_two_blocks.
Print Assumptions Pspec_two_blocks_upper.
Print Assumptions Pspec_two_blocks_lower.
Print Assumptions Pspec_two_blocks_upper_right.
Print Assumptions Pspec_two_blocks_lower_left.
Print Assumptions perm_blocks.
Print Assumptions Pspec_blocks.
Print Assumptions Pspec_same_block.
Print Assumptions Pspec_other_block.
