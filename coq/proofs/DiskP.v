(* Proofs for property C08 (and the deletion-safety half of C14): a crash at any effect
   boundary of a step, or half-way through any write, leaves a disk from which the restart
   reads either the old or the new record, all of whose active paths load; after recovery the
   data file holds every replaced path exactly once. *)
From Coq Require Import List Bool Arith Lia.
Import ListNotations.
From Inf Require Import base.ListX model.DiskM.
Open Scope nat_scope.

Definition key (e : eff) : option (nat * nat) :=
  match e with EPut a b | EDel a b => Some (a, b) | _ => None end.

Definition target (e : eff) : option nat :=
  match e with EPut a _ | EDel a _ => Some a | _ => None end.

Definition hp (pn f : nat) (x : nat * nat * bool) : bool := let '(a, b, w) := x in (a =? pn) && (b =? f) && w.

Lemma has_eq d pn f : has d pn f = existsb (hp pn f) (files d).
Proof. reflexivity. Qed.

Lemma existsb_drop_other pn f pn' f' l :
  (pn', f') <> (pn, f) -> existsb (hp pn f) (drop_file pn' f' l) = existsb (hp pn f) l.
Proof.
  intros N. unfold drop_file. induction l as [|[[a b] w] l IH]; [reflexivity|].
  cbn [filter same]. destruct ((a =? pn') && (b =? f')) eqn:E; cbn [negb].
  - rewrite IH. cbn [existsb hp].
    apply andb_true_iff in E as [E1 E2]. apply Nat.eqb_eq in E1, E2. subst.
    destruct (Nat.eqb_spec pn' pn) as [->|]; cbn [andb orb]; [|reflexivity].
    destruct (Nat.eqb_spec f' f) as [->|]; cbn [andb orb]; [congruence|reflexivity].
  - cbn [existsb]. rewrite IH. reflexivity.
Qed.

Lemma existsb_drop_same pn f l : existsb (hp pn f) (drop_file pn f l) = false.
Proof.
  unfold drop_file. induction l as [|[[a b] w] l IH]; [reflexivity|].
  cbn [filter same]. destruct ((a =? pn) && (b =? f)) eqn:E; cbn [negb]; [exact IH|].
  cbn [existsb hp]. rewrite E. cbn [andb orb]. exact IH.
Qed.

Lemma has_other t d e pn f : key e <> Some (pn, f) -> has (apply t d e) pn f = has d pn f.
Proof.
  intros N. destruct e as [|a b|a b|a|r| |r]; cbn [apply]; try reflexivity; rewrite !has_eq; cbn [files].
  - cbn [existsb hp]. assert (E : (a, b) <> (pn, f)) by (intros E; apply N; cbn; congruence).
    rewrite existsb_drop_other by exact E.
    destruct (Nat.eqb_spec a pn) as [->|]; cbn; [|reflexivity].
    destruct (Nat.eqb_spec b f) as [->|]; cbn; [congruence|reflexivity].
  - apply existsb_drop_other. intros E. apply N. cbn. congruence.
Qed.

Lemma has_put t d pn f : has (apply t d (EPut pn f)) pn f = negb t.
Proof. rewrite has_eq. cbn. rewrite !Nat.eqb_refl. cbn. destruct t; cbn; [apply existsb_drop_same|reflexivity]. Qed.

Lemma has_list d es pn f : (forall e, In e es -> key e <> Some (pn, f)) -> has (apply_list d es) pn f = has d pn f.
Proof.
  revert d; induction es as [|e es IH]; intros d H; cbn; [reflexivity|].
  unfold apply_list in *. cbn. rewrite IH by (intros x Hx; apply H; now right).
  apply has_other. apply H. now left.
Qed.

Lemma has_crash k t d es pn f : (forall e, In e es -> key e <> Some (pn, f)) -> has (crash k t d es) pn f = has d pn f.
Proof.
  intros H. unfold crash.
  assert (H1 : has (apply_list d (firstn k es)) pn f = has d pn f).
  { apply has_list. intros e He. apply H. eapply firstn_In; eauto. }
  destruct (nth_error es k) as [e|] eqn:E; [|exact H1].
  destruct (t && tearable e); [|exact H1].
  rewrite has_other; [exact H1|]. apply H. eapply nth_error_In; eauto.
Qed.

Lemma key_target e pn f : target e <> Some pn -> key e <> Some (pn, f).
Proof. destruct e; cbn; congruence. Qed.

Lemma loadable_crash need k t d es pn :
  (forall e, In e es -> target e <> Some pn) -> loadable need (crash k t d es) pn = loadable need d pn.
Proof.
  intros H. unfold loadable. induction (need pn) as [|f fs IH]; cbn; [reflexivity|].
  rewrite IH. f_equal. apply has_crash. intros e He. apply key_target. apply H. exact He.
Qed.

(* a file put in place and not removed afterwards is there *)
Lemma has_put_list pn f : forall es d,
  (has d pn f = true \/ In (EPut pn f) es) -> (forall e, In e es -> e <> EDel pn f) ->
  has (apply_list d es) pn f = true.
Proof.
  induction es as [|e es IH]; intros d H N; unfold apply_list in *; cbn.
  - destruct H as [H|[]]. exact H.
  - apply IH; [|intros x Hx; apply N; now right].
    destruct (key e) as [[a b]|] eqn:K.
    + destruct (Nat.eq_dec a pn) as [->|Na]; [destruct (Nat.eq_dec b f) as [->|Nb]|].
      * (* same file: a put (a removal is excluded) *)
        destruct e as [|a' b'|a' b'|?|?| |?]; cbn in K; try discriminate; injection K as -> ->.
        -- left. apply has_put.
        -- exfalso. apply (N (EDel pn f)); [now left|reflexivity].
      * destruct H as [H|[H|H]].
        -- left. rewrite has_other; [exact H|]. rewrite K. congruence.
        -- subst e. cbn in K. congruence.
        -- now right.
      * destruct H as [H|[H|H]].
        -- left. rewrite has_other; [exact H|]. rewrite K. congruence.
        -- subst e. cbn in K. congruence.
        -- now right.
    + destruct H as [H|[H|H]].
      * left. rewrite has_other; [exact H|]. rewrite K. discriminate.
      * subst e. discriminate.
      * now right.
Qed.

(* ------------------------------------------------------------------ record and rows *)

Definition recfree (e : eff) : Prop := match e with ERecInPlace _ | ERecSwap _ => False | _ => True end.

Lemma rec_apply t d e : recfree e -> rec (apply t d e) = rec d /\ rec_torn (apply t d e) = rec_torn d.
Proof. destruct e; cbn; intros H; try contradiction; auto. Qed.

Lemma rec_list es : forall d, (forall e, In e es -> recfree e) ->
  rec (apply_list d es) = rec d /\ rec_torn (apply_list d es) = rec_torn d.
Proof.
  induction es as [|e es IH]; intros d H; unfold apply_list in *; cbn; [auto|].
  destruct (IH (apply false d e)) as (A & B); [intros x Hx; apply H; now right|].
  destruct (rec_apply false d e (H e (or_introl eq_refl))) as (C & D). split; congruence.
Qed.

Lemma rec_crash k t d es : (forall e, In e es -> recfree e) ->
  rec (crash k t d es) = rec d /\ rec_torn (crash k t d es) = rec_torn d.
Proof.
  intros H. unfold crash.
  destruct (rec_list (firstn k es) d) as (A & B); [intros e He; apply H; eapply firstn_In; eauto|].
  destruct (nth_error es k) as [e|] eqn:E; [|auto].
  destruct (t && tearable e); [|auto].
  destruct (rec_apply true (apply_list d (firstn k es)) e) as (C & D); [apply H; eapply nth_error_In; eauto|].
  split; congruence.
Qed.

(* rows appended by a list of effects: all belong to the replaced paths *)
Lemma rows_apply t d e : exists extra, rows (apply t d e) = rows d ++ extra /\
  forall x, In x extra -> e = ERow (fst x).
Proof.
  destruct e as [|a b|a b|a|r| |r]; cbn; try (exists []; rewrite app_nil_r; split; [reflexivity|intros x []]).
  exists [(a, negb t)]. split; [reflexivity|]. intros x [<-|[]]. reflexivity.
Qed.

Lemma rows_list es : forall d, exists extra, rows (apply_list d es) = rows d ++ extra /\
  forall x, In x extra -> In (ERow (fst x)) es.
Proof.
  induction es as [|e es IH]; intros d; unfold apply_list in *; cbn.
  - exists []. rewrite app_nil_r. split; [reflexivity|intros x []].
  - destruct (rows_apply false d e) as (x1 & A1 & B1). destruct (IH (apply false d e)) as (x2 & A2 & B2).
    exists (x1 ++ x2). rewrite A2, A1, app_assoc. split; [reflexivity|].
    intros x Hx. apply in_app_or in Hx as [Hx|Hx]; [left; exact (B1 x Hx)|right; exact (B2 x Hx)].
Qed.

Lemma rows_crash k t d es : exists extra, rows (crash k t d es) = rows d ++ extra /\
  forall x, In x extra -> In (ERow (fst x)) es.
Proof.
  unfold crash. destruct (rows_list (firstn k es) d) as (x1 & A1 & B1).
  assert (B1' : forall x, In x x1 -> In (ERow (fst x)) es) by (intros x Hx; eapply firstn_In; eauto).
  destruct (nth_error es k) as [e|] eqn:E; [|eauto].
  destruct (t && tearable e); [|eauto].
  destruct (rows_apply true (apply_list d (firstn k es)) e) as (x2 & A2 & B2).
  exists (x1 ++ x2). rewrite A2, A1, app_assoc. split; [reflexivity|].
  intros x Hx. apply in_app_or in Hx as [Hx|Hx]; [auto|]. rewrite <- (B2 x Hx). eapply nth_error_In; eauto.
Qed.

Lemma trim_app a l m : trim a (l ++ m) = trim a l ++ trim a m.
Proof. unfold trim. apply filter_app. Qed.

Lemma trim_all_active a m : (forall x, In x m -> In (fst x) a) -> trim a m = [].
Proof.
  intros H. unfold trim. induction m as [|x m IH]; cbn; [reflexivity|].
  assert (E : existsb (Nat.eqb (fst x)) a = true).
  { apply existsb_exists. exists (fst x). split; [apply H; now left|apply Nat.eqb_refl]. }
  rewrite E, andb_false_r. apply IH. intros y Hy. apply H. now right.
Qed.

Lemma trim_id a l : (forall x, In x l -> snd x = true /\ ~ In (fst x) a) -> trim a l = l.
Proof.
  intros H. unfold trim. induction l as [|x l IH]; cbn; [reflexivity|].
  destruct (H x (or_introl eq_refl)) as (W & N). rewrite W. cbn.
  assert (E : existsb (Nat.eqb (fst x)) a = false).
  { destruct (existsb _ a) eqn:E; [|reflexivity]. apply existsb_exists in E as (y & Hy & Ey).
    apply Nat.eqb_eq in Ey. subst y. contradiction. }
  rewrite E. cbn. f_equal. apply IH. intros y Hy. apply H. now right.
Qed.

(* ------------------------------------------------------------------ the step *)

Section StepProofs.
  Variable need : nat -> list nat.
  Variable d : disk.
  Variable rold : rrec.
  Variable st : stepinfo.

  (* the disk is consistent with the old record *)
  Hypothesis Hrec : rec d = Some rold.
  Hypothesis Hwhole : rec_torn d = false.
  Hypothesis Hload : forall pn, In pn (r_active rold) -> loadable need d pn = true.
  Hypothesis Hrows : forall x, In x (rows d) -> snd x = true /\ ~ In (fst x) (r_active rold) /\ ~ In (fst x) (news st).
  (* the step: new paths get fresh numbers, replaced paths are live ones, only paths that
     are neither live before nor after the step are deleted, and the new record lists live
     paths that stay and the new ones *)
  Hypothesis Hnews : forall pn, In pn (news st) -> ~ In pn (r_active rold).
  Hypothesis Holds : forall pn, In pn (olds st) -> In pn (r_active rold) /\ ~ In pn (r_active (rnew st)).
  Hypothesis Hdels : forall x, In x (dels st) -> ~ In (fst x) (r_active rold) /\ ~ In (fst x) (r_active (rnew st)).
  Hypothesis Hact : forall pn, In pn (r_active (rnew st)) -> In pn (r_active rold) \/ In pn (news st).

  Let pre := pre_effects need st.

  Lemma pre_in e : In e pre ->
    (e = ENop) \/ (exists pn f, e = EPut pn f /\ In pn (news st) /\ In f (need pn)) \/
    (exists x f, e = EDel (fst x) f /\ In x (dels st)) \/ (exists pn, e = ERow pn /\ In pn (olds st)).
  Proof.
    unfold pre, pre_effects. intros H. apply in_app_or in H as [H|H].
    - apply in_flat_map in H as (p & Hp & He). unfold part_effects in He. apply in_app_or in He as [He|He].
      + cbn in He. destruct He as [<-|He]; [now left|].
        apply in_map_iff in He as (f & <- & Hf). right. left. exists (fst p), f. split; [reflexivity|].
        split; [unfold news; now apply in_map|exact Hf].
      + apply in_flat_map in He as (x & Hx & He). unfold del_path in He. apply in_app_or in He as [He|[<-|[]]]; [|now left].
        apply in_map_iff in He as (f & <- & Hf). right. right. left. exists x, f. split; [reflexivity|].
        unfold dels. apply in_flat_map. eauto.
    - apply in_map_iff in H as (pn & <- & Hp). right. right. right. eauto.
  Qed.

  Lemma pre_recfree e : In e pre -> recfree e.
  Proof.
    intros H. destruct (pre_in e H) as [->|[(pn & f & -> & _)|[(x & f & -> & _)|(pn & -> & _)]]]; exact I.
  Qed.

  Lemma pre_target_old e pn : In e pre -> In pn (r_active rold) -> target e <> Some pn.
  Proof.
    intros H Hp. destruct (pre_in e H) as [->|[(a & f & -> & Ha & _)|[(x & f & -> & Hx)|(a & -> & _)]]]; cbn; try discriminate.
    - intros E. injection E as ->. exact (Hnews _ Ha Hp).
    - intros E. injection E as E. destruct (Hdels _ Hx) as (N & _). congruence.
  Qed.

  (* crash anywhere before the restart file is swapped: nothing the old record needs is
     touched, and the rows written so far all belong to paths that are still active *)
  Theorem pre_crash_safe k t :
    let d' := crash k t d pre in
    rec d' = Some rold /\ rec_torn d' = false /\
    (forall pn, In pn (r_active rold) -> loadable need d' pn = true) /\
    trim (r_active rold) (rows d') = rows d.
  Proof.
    cbn zeta. destruct (rec_crash k t d pre pre_recfree) as (A & B).
    split; [congruence|]. split; [congruence|]. split.
    - intros pn Hp. rewrite loadable_crash; [exact (Hload pn Hp)|].
      intros e He. apply pre_target_old; assumption.
    - destruct (rows_crash k t d pre) as (extra & E & X). rewrite E, trim_app.
      rewrite (trim_id _ (rows d)); [|intros x Hx; destruct (Hrows x Hx) as (P & Q & _); auto].
      rewrite trim_all_active; [apply app_nil_r|].
      intros x Hx. specialize (X x Hx). destruct (pre_in _ X) as [F|[(a & f & F & _)|[(y & f & F & _)|(a & F & Ha)]]]; try discriminate.
      injection F as ->. exact (proj1 (Holds _ Ha)).
  Qed.

  (* the same disk is reached by a crash inside the temporary-file write or just before the swap *)
  Lemma crash_tail k t r : k <= length pre + 1 ->
    exists k' t', crash k t d (pre ++ [ERecTmp; ERecSwap r]) = crash k' t' d pre.
  Proof.
    intros Hk. destruct (Nat.lt_ge_cases k (length pre)) as [Hlt|Hge].
    - exists k, t. unfold crash. rewrite firstn_app, nth_error_app1 by exact Hlt.
      replace (k - length pre) with 0 by lia. cbn. now rewrite app_nil_r.
    - exists (length pre), false. unfold crash at 2. rewrite firstn_all.
      assert (N : nth_error pre (length pre) = None) by (apply nth_error_None; lia). rewrite N.
      unfold crash. rewrite firstn_app, firstn_all2 by lia.
      destruct (Nat.eq_dec k (length pre)) as [->|Hne].
      + rewrite Nat.sub_diag. cbn [firstn]. rewrite app_nil_r.
        rewrite nth_error_app2 by lia. rewrite Nat.sub_diag. cbn.
        destruct t; reflexivity.
      + assert (k = length pre + 1) by lia. subst k.
        replace (length pre + 1 - length pre) with 1 by lia. cbn [firstn].
        rewrite nth_error_app2 by lia. replace (length pre + 1 - length pre) with 1 by lia. cbn.
        rewrite andb_false_r. unfold apply_list. rewrite fold_left_app. reflexivity.
  Qed.

  (* the full step *)
  Lemma done_disk :
    let d' := apply_list d (effects need true st) in
    rec d' = Some (rnew st) /\ rec_torn d' = false /\
    (forall pn, In pn (r_active (rnew st)) -> loadable need d' pn = true) /\
    rows d' = rows d ++ map (fun pn => (pn, true)) (olds st).
  Proof.
    cbn zeta. unfold effects. fold pre. unfold apply_list. rewrite fold_left_app. cbn [fold_left apply].
    fold (apply_list d pre). cbn [rec rec_torn files rows].
    split; [reflexivity|]. split; [reflexivity|]. split.
    - intros pn Hp. unfold loadable. apply forallb_forall. intros f Hf.
      rewrite has_eq. cbn [files]. rewrite <- has_eq.
      destruct (Hact pn Hp) as [Ho|Hn].
      + (* a path that stays: untouched *)
        rewrite has_list.
        * specialize (Hload pn Ho). unfold loadable in Hload. rewrite forallb_forall in Hload. exact (Hload f Hf).
        * intros e He. apply key_target. apply pre_target_old; assumption.
      + (* a new path: every file was put in place and nothing removes it *)
        apply has_put_list.
        * right. unfold pre, pre_effects. apply in_or_app. left.
          unfold news in Hn. apply in_map_iff in Hn as (p & Ep & Hpp). subst pn.
          apply in_flat_map. exists p. split; [exact Hpp|]. unfold part_effects. apply in_or_app. left.
          right. apply in_map. exact Hf.
        * intros e He E. subst e. destruct (pre_in _ He) as [F|[(a & g & F & _)|[(y & g & F & Hy)|(a & F & _)]]]; try discriminate.
          injection F as F1 F2. destruct (Hdels _ Hy) as (_ & N). apply N. congruence.
    - (* rows: only the ERow effects, in order *)
      unfold pre, pre_effects. unfold apply_list. rewrite fold_left_app.
      set (d1 := fold_left (apply false) _ d).
      assert (R1 : rows d1 = rows d).
      { destruct (rows_list (flat_map (part_effects need) (parts st)) d) as (extra & E & X).
        fold d1 in E. destruct extra as [|x extra]; [now rewrite app_nil_r in E|].
        exfalso. specialize (X x (or_introl eq_refl)).
        apply in_flat_map in X as (p & _ & X). unfold part_effects in X. apply in_app_or in X as [X|X].
        - cbn in X. destruct X as [X|X]; [discriminate|].
          apply in_map_iff in X as (g & X & _). discriminate.
        - apply in_flat_map in X as (a & _ & X). unfold del_path in X. apply in_app_or in X as [X|[X|[]]]; [|discriminate].
          apply in_map_iff in X as (g & X & _). discriminate. }
      rewrite <- R1. clear R1. generalize d1. generalize (olds st). clear.
      intros os. induction os as [|o os IH]; intros dd; cbn; [now rewrite app_nil_r|].
      rewrite IH. cbn. now rewrite <- app_assoc.
  Qed.

  (* ---------------------------------------------------------------- the statement *)

  Theorem crash_recovers k t :
    exists r rs, recover need true (crash k t d (effects need true st)) = Some (r, rs) /\
      ((r = rold /\ rs = rows d) \/
       (r = rnew st /\ rs = rows d ++ map (fun pn => (pn, true)) (olds st))).
  Proof.
    unfold effects. fold pre.
    destruct (Nat.le_gt_cases k (length pre + 1)) as [Hk|Hk].
    - destruct (crash_tail k t (rnew st) Hk) as (k' & t' & ->).
      destruct (pre_crash_safe k' t') as (A & B & C & D).
      exists rold, (rows d). split; [|left; auto].
      unfold recover. rewrite A, B.
      assert (F : forallb (loadable need (crash k' t' d pre)) (r_active rold) = true) by (apply forallb_forall; exact C).
      rewrite F, D. reflexivity.
    - (* every effect was carried out *)
      assert (E : crash k t d (pre ++ [ERecTmp; ERecSwap (rnew st)]) = apply_list d (effects need true st)).
      { unfold crash, effects. fold pre. rewrite firstn_all2 by (rewrite app_length; cbn; lia).
        assert (N : nth_error (pre ++ [ERecTmp; ERecSwap (rnew st)]) k = None) by (apply nth_error_None; rewrite app_length; cbn; lia).
        now rewrite N. }
      rewrite E. destruct done_disk as (A & B & C & D).
      exists (rnew st), (rows d ++ map (fun pn => (pn, true)) (olds st)). split; [|right; auto].
      unfold recover. rewrite A, B.
      assert (F : forallb (loadable need (apply_list d (effects need true st))) (r_active (rnew st)) = true) by (apply forallb_forall; exact C).
      rewrite F, D, trim_id; [reflexivity|].
      intros x Hx. apply in_app_or in Hx as [Hx|Hx].
      + destruct (Hrows x Hx) as (P & Q & R). split; [exact P|]. intros Hin. destruct (Hact _ Hin); contradiction.
      + apply in_map_iff in Hx as (pn & <- & Hp). cbn. split; [reflexivity|]. exact (proj2 (Holds _ Hp)).
  Qed.
End StepProofs.

(* ------------------------------------------------------------------ the original code is refuted *)

Definition need1 (pn : nat) : list nat := [0; 2; 3].
Definition d0 : disk :=
  mkDisk [(0, 0, true); (0, 2, true); (0, 3, true); (1, 0, true); (1, 2, true); (1, 3, true)] []
         (Some (mkRec 4 [0; 1] [] 2)) false.
Definition st0 : stepinfo := mkStep [(2, [])] [1] (mkRec 5 [0; 2] [] 3).

(* (a) a crash half-way through the in-place rewrite of restart.toml: nothing can be recovered *)
Lemma original_torn_restart_refuted :
  recover need1 false (crash (length (effects need1 false st0) - 1) true d0 (effects need1 false st0)) = None.
Proof. reflexivity. Qed.

(* (b) a crash between the data-row append and the restart rewrite: the old record is read, the
   step is done again and the replaced path gets a second row *)
Lemma original_duplicate_row_refuted :
  exists r rs, recover need1 false (crash (length (effects need1 false st0) - 1) false d0 (effects need1 false st0)) = Some (r, rs)
               /\ r = mkRec 4 [0; 1] [] 2 /\ rs = [(1, true)].
Proof. eexists. eexists. split; [reflexivity|]. split; reflexivity. Qed.
