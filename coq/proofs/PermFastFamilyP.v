(* Glue, part 2: the all-equal fast path on the reachable family, every size.

   For every number m of plus ensembles, every lock vector and every state matrix
   wstair_matrix rows (spec/PermS.v) whose paths carry ONE weight on their support
   (row r = w_r repeated l_r times, w_r <> 0, 1 <= l_r <= m - in particular every 0/1
   staircase stair_matrix ks), REPEX_state.inf_retis returns Pspec on the idle block and zero
   on the busy rows and columns: [refines_Pspec] of proofs/PermP.v, there proved by
   exhaustive computation up to m = 5 only.  random_prob is never reached on this path. *)
From Coq Require Import ZArith QArith Qabs List Bool Arith Lia Setoid Morphisms Permutation.
From Inf Require Import spec.PermS model.PermM proofs.PermSpecP proofs.PermQuickP
  proofs.PermQuickSpecP proofs.PermGlynnP proofs.PermIdleP proofs.PermP proofs.PermPermanentP
  proofs.PermPermuteP proofs.PermBlockP proofs.PermFastP.
Import ListNotations.
Open Scope Q_scope.

(* ------------------------------------------------------------------ *)
(* strictly increasing index lists (what idle_idx produces)             *)

Fixpoint incr (lo : nat) (l : list nat) : Prop :=
  match l with
  | [] => True
  | x :: r => (lo <= x)%nat /\ incr (Datatypes.S x) r
  end.

Lemma incr_weaken : forall l lo lo', (lo <= lo')%nat -> incr lo' l -> incr lo l.
Proof. intros [|x r] lo lo' H Hi; [exact I|]. destruct Hi as [H1 H2]. split; [lia | exact H2]. Qed.

Lemma incr_ge : forall l lo y, incr lo l -> In y l -> (lo <= y)%nat.
Proof.
  induction l as [|x r IH]; intros lo y Hi Hy; [destruct Hy|]. destruct Hi as [H1 H2].
  destruct Hy as [<- | Hy]; [exact H1|]. specialize (IH _ _ H2 Hy). lia.
Qed.

Lemma incr_filter_seq : forall (f : nat -> bool) n s, incr s (filter f (seq s n)).
Proof.
  intros f. induction n as [|n IH]; intros s; [exact I|].
  cbn [seq filter]. destruct (f s).
  - split; [lia | apply IH].
  - apply (incr_weaken _ s (Datatypes.S s)); [lia | apply IH].
Qed.

Definition cntlt (v : nat) (l : list nat) : nat := length (filter (fun x => (x <? v)%nat) l).

Lemma cntlt_above : forall l lo v, incr lo l -> (v <= lo)%nat -> cntlt v l = O.
Proof.
  intros l lo v Hi Hv. unfold cntlt. rewrite filter_none; [reflexivity|].
  intros x Hx. pose proof (incr_ge l lo x Hi Hx). apply Nat.ltb_ge. lia.
Qed.

Lemma incr_nth_lt : forall l lo v c, incr lo l -> (c < length l)%nat ->
  ((nth c l O < v)%nat <-> (c < cntlt v l)%nat).
Proof.
  induction l as [|x r IH]; intros lo v c Hi Hc; [cbn in Hc; lia|].
  destruct Hi as [H1 H2]. unfold cntlt. cbn [filter].
  destruct (Nat.ltb_spec x v) as [L | L].
  - cbn [length]. destruct c as [|c]; [cbn; lia|]. cbn [nth]. cbn [length] in Hc.
    rewrite (IH (Datatypes.S x) v c H2 ltac:(lia)). unfold cntlt. lia.
  - fold (cntlt v r). rewrite (cntlt_above r (Datatypes.S x) v H2 ltac:(lia)).
    destruct c as [|c]; [cbn; lia|]. cbn [nth]. cbn [length] in Hc.
    assert (Hin : In (nth c r O) r) by (apply nth_In; lia).
    pose proof (incr_ge r _ _ H2 Hin). lia.
Qed.

Lemma idle_idx_incr : forall locks, incr 0 (idle_idx locks).
Proof. intros locks. unfold idle_idx. apply incr_filter_seq. Qed.

(* ------------------------------------------------------------------ *)
(* the entries of wstair_matrix for one-weight rows                     *)

Section Family.
Set Default Proof Using "All".
Variable rows : list (list Q).
Let m := length rows.
Variable wf : nat -> Q.
Variable lf : nat -> nat.
Hypothesis Hrows : forall r, (r < m)%nat ->
  nth r rows [] = repeat (wf r) (lf r) /\ ~ wf r == 0 /\ (lf r <= m)%nat.

Let W := wstair_matrix rows.

Lemma W_length : length W = Datatypes.S (Datatypes.S m).
Proof.
  unfold W, wstair_matrix. cbv zeta. rewrite app_length. cbn [length]. rewrite map_length. fold m. lia.
Qed.

Lemma W_row0 : rownth W 0 = 1 :: repeat 0 (Datatypes.S m).
Proof. reflexivity. Qed.

Lemma W_rowS : forall i, (i < m)%nat -> rownth W (Datatypes.S i) = stair_row m (repeat (wf i) (lf i)).
Proof.
  intros i Hi. unfold W, wstair_matrix, rownth. cbv zeta. fold m. cbn [app nth].
  rewrite app_nth1 by (rewrite map_length; exact Hi).
  rewrite (nth_indep _ [] (stair_row m [])) by (rewrite map_length; exact Hi).
  rewrite map_nth. destruct (Hrows i Hi) as [E _]. rewrite E. reflexivity.
Qed.

Lemma W_square : square (Datatypes.S (Datatypes.S m)) W.
Proof.
  split; [exact W_length|]. rewrite Forall_forall. intros r Hin.
  apply (In_nth _ _ []) in Hin as (i & Hi & <-). rewrite W_length in Hi.
  destruct i as [|i].
  - fold (rownth W 0). rewrite W_row0. cbn [length]. rewrite repeat_length. reflexivity.
  - destruct (Nat.lt_ge_cases i m) as [L | L].
    + fold (rownth W (Datatypes.S i)). rewrite (W_rowS i L). unfold stair_row.
      destruct (Hrows i L) as (_ & _ & Hl).
      rewrite app_length. cbn [length]. rewrite !repeat_length. lia.
    + assert (i = m) by lia. subst i. unfold W, wstair_matrix. cbv zeta. fold m. cbn [app nth].
      rewrite app_nth2 by (rewrite map_length; fold m; lia). rewrite map_length. fold m.
      rewrite Nat.sub_diag. cbn [nth]. rewrite repeat_length. reflexivity.
Qed.

Lemma nth_repeat0 : forall n j, nth j (repeat 0 n) 0 = 0.
Proof. intros n j. apply nth_repeat_same. Qed.

Lemma W_00 : mget W 0 0 = 1.
Proof. reflexivity. Qed.

Lemma W_0S : forall j, mget W 0 (Datatypes.S j) = 0.
Proof. intros j. unfold mget. rewrite W_row0. unfold qnth. cbn [nth]. apply nth_repeat0. Qed.

Lemma W_S0 : forall i, (i < m)%nat -> mget W (Datatypes.S i) 0 = 0.
Proof. intros i Hi. unfold mget. rewrite (W_rowS i Hi). reflexivity. Qed.

Lemma W_SS : forall i j, (i < m)%nat ->
  mget W (Datatypes.S i) (Datatypes.S j) = if (j <? lf i)%nat then wf i else 0.
Proof.
  intros i j Hi. unfold mget. rewrite (W_rowS i Hi). unfold stair_row, qnth. cbn [app nth].
  destruct (Nat.ltb_spec j (lf i)) as [L | L].
  - rewrite app_nth1 by (rewrite repeat_length; exact L). apply nth_repeat_lt. exact L.
  - rewrite app_nth2 by (rewrite repeat_length; exact L). apply nth_repeat0.
Qed.

(* ------------------------------------------------------------------ *)
(* the unlocked matrix                                                  *)

Variable b0 : bool.
Variable lk' : list bool.
Hypothesis Hlk : length lk' = m.

Let locks := b0 :: lk' ++ [true].
Let J := idle_idx (lk' ++ [true]).
Let q := length J.
Let p := if b0 then O else 1%nat.
Let idx := idle_idx locks.
Let U := idle_block W locks.

Lemma locks_length : length locks = Datatypes.S (Datatypes.S m).
Proof. unfold locks. cbn [length]. rewrite app_length. cbn [length]. lia. Qed.

Lemma J_lt : forall a, (a < q)%nat -> (nth a J O < m)%nat.
Proof.
  intros a Ha. pose proof (idle_idx_lt (lk' ++ [true]) a Ha) as H1.
  pose proof (idle_idx_unlocked (lk' ++ [true]) a Ha) as H2. fold J in H1, H2.
  rewrite app_length in H1. cbn [length] in H1.
  destruct (Nat.eq_dec (nth a J O) m) as [E | NE]; [|lia].
  rewrite E in H2. rewrite app_nth2 in H2 by lia. rewrite Hlk, Nat.sub_diag in H2. discriminate.
Qed.

Lemma idx_eq : idx = if b0 then map Datatypes.S J else O :: map Datatypes.S J.
Proof. unfold idx, locks. apply idle_idx_cons. Qed.

Lemma idx_length : length idx = (p + q)%nat.
Proof. rewrite idx_eq. unfold p, q. destruct b0; cbn [length]; rewrite map_length; reflexivity. Qed.

Lemma idx_plus : forall a, (a < q)%nat -> nth (p + a) idx O = Datatypes.S (nth a J O).
Proof.
  intros a Ha. rewrite idx_eq. unfold p. destruct b0; cbn [plus nth];
    rewrite (nth_indep _ O (Datatypes.S O)) by (rewrite map_length; exact Ha); apply map_nth.
Qed.

Lemma p_cases : (b0 = true /\ p = O) \/ (b0 = false /\ p = 1%nat).
Proof. unfold p. destruct b0; [left | right]; split; reflexivity. Qed.

Lemma idx_0 : b0 = false -> nth 0 idx O = O.
Proof. intros E. rewrite idx_eq, E. reflexivity. Qed.

Lemma U_length : length U = (p + q)%nat.
Proof. unfold U, idle_block. cbv zeta. rewrite map_length. exact idx_length. Qed.

Lemma U_mget : forall a b, (a < p + q)%nat -> (b < p + q)%nat ->
  mget U a b = mget W (nth a idx O) (nth b idx O).
Proof.
  intros a b Ha Hb. unfold U, idle_block. cbv zeta. fold idx. unfold mget at 1, rownth.
  rewrite (nth_indep _ [] ((fun i => map (fun j => nth j (nth i W []) 0) idx) O))
    by (rewrite map_length, idx_length; exact Ha).
  rewrite (map_nth (fun i => map (fun j => nth j (nth i W []) 0) idx)).
  unfold qnth.
  rewrite (nth_indep _ 0 ((fun j => nth j (nth (nth a idx O) W []) 0) O))
    by (rewrite map_length, idx_length; exact Hb).
  rewrite (map_nth (fun j => nth j (nth (nth a idx O) W []) 0)). reflexivity.
Qed.

Lemma U_square : square (p + q) U.
Proof. rewrite <- idx_length. apply square_idle_block. Qed.

Lemma U_plus_zero : forall a c, (a < q)%nat -> (c < p)%nat -> mget U (p + a) c = 0.
Proof.
  intros a c Ha Hc. rewrite U_mget by lia. rewrite (idx_plus a Ha).
  destruct p_cases as [[E Ep] | [E Ep]]; [lia|]. assert (c = O) by lia. subst c.
  rewrite (idx_0 E). apply W_S0. apply J_lt. exact Ha.
Qed.

Lemma U_plus_plus : forall a c, (a < q)%nat -> (c < q)%nat ->
  mget U (p + a) (p + c) =
  if (nth c J O <? lf (nth a J O))%nat then wf (nth a J O) else 0.
Proof.
  intros a c Ha Hc. rewrite U_mget by lia. rewrite (idx_plus a Ha), (idx_plus c Hc).
  apply W_SS. apply J_lt. exact Ha.
Qed.

Definition kfp (a : nat) : nat := cntlt (lf (nth a J O)) J.
Definition wp (a : nat) : Q := wf (nth a J O).

Lemma mget_skipn_rows : forall z (M : matrix) a c, mget (skipn z M) a c = mget M (z + a) c.
Proof. intros z M a c. unfold mget, rownth. rewrite nth_skipn_plus. reflexivity. Qed.

Lemma plus_ustair : ustair p q kfp wp (skipn p U).
Proof.
  pose proof U_square as [HlU HrU].
  split; [rewrite skipn_length, HlU; lia|]. split; [|split; [|split]].
  - rewrite Forall_forall in *. intros r Hin. apply HrU.
    rewrite <- (firstn_skipn p U). apply in_or_app. right. exact Hin.
  - intros a c Ha Hc. rewrite mget_skipn_rows. rewrite U_plus_zero by assumption. reflexivity.
  - intros a c Ha Hc. rewrite mget_skipn_rows. rewrite U_plus_plus by assumption.
    pose proof (incr_nth_lt J 0 (lf (nth a J O)) c (idle_idx_incr _) Hc) as HJ. fold (kfp a) in HJ.
    destruct (Nat.ltb_spec (nth c J O) (lf (nth a J O))) as [L | L].
    + destruct (Hrows (nth a J O) (J_lt a Ha)) as (_ & Hnz & _). split; [intros E; contradiction | lia].
    + split; [lia | reflexivity].
  - intros a c Ha Hc Hk. rewrite mget_skipn_rows. rewrite U_plus_plus by assumption.
    pose proof (incr_nth_lt J 0 (lf (nth a J O)) c (idle_idx_incr _) Hc) as HJ. fold (kfp a) in HJ.
    destruct (Nat.ltb_spec (nth c J O) (lf (nth a J O))) as [L | L]; [reflexivity | lia].
Qed.

Lemma minus_ustair : ustair q p (fun _ => 1%nat) (fun _ => 1) (map (@rev Q) (firstn p U)).
Proof.
  pose proof U_square as [HlU HrU].
  destruct p_cases as [[E Ep] | [E Ep]]; rewrite Ep in *.
  - cbn [firstn map]. split; [reflexivity|]. split; [constructor|].
    split; [|split]; intros; lia.
  - assert (Hrow0 : length (rownth U 0) = (1 + q)%nat).
    { rewrite Forall_forall in HrU. apply HrU. unfold rownth. apply nth_In. lia. }
    assert (Hg : forall c, (c < 1 + q)%nat ->
              mget (map (@rev Q) (firstn 1 U)) 0 c = mget U 0 (1 + q - 1 - c)).
    { intros c Hc. rewrite (mget_rev_rows _ (1 + q)%nat).
      - unfold mget, rownth. rewrite nth_firstn_lt by lia. reflexivity.
      - rewrite firstn_length, HlU. lia.
      - unfold rownth. rewrite nth_firstn_lt by lia. exact Hrow0.
      - exact Hc. }
    split; [rewrite map_length, firstn_length, HlU; lia|]. split; [|split; [|split]].
    + rewrite Forall_forall. intros r Hin. apply in_map_iff in Hin as (r0 & <- & Hin).
      rewrite rev_length. rewrite Forall_forall in HrU. rewrite (HrU r0); [lia|].
      rewrite <- (firstn_skipn 1 U). apply in_or_app. left. exact Hin.
    + intros i c Hi Hc. assert (i = O) by lia. subst i. rewrite Hg by lia.
      rewrite U_mget by lia. rewrite (idx_0 E).
      replace (1 + q - 1 - c)%nat with (1 + (q - 1 - c))%nat by lia.
      pose proof (idx_plus (q - 1 - c)%nat ltac:(lia)) as Ei. rewrite Ep in Ei.
      rewrite Ei. rewrite W_0S. reflexivity.
    + intros i c Hi Hc. assert (i = O) by lia. assert (c = O) by lia. subst i c.
      rewrite Hg by lia. replace (1 + q - 1 - (q + 0))%nat with O by lia.
      rewrite U_mget by lia. rewrite (idx_0 E). rewrite W_00. split; [intros H; discriminate H | lia].
    + intros i c Hi Hc _. assert (i = O) by lia. assert (c = O) by lia. subst i c.
      rewrite Hg by lia. replace (1 + q - 1 - (q + 0))%nat with O by lia.
      rewrite U_mget by lia. rewrite (idx_0 E). rewrite W_00. reflexivity.
Qed.

Lemma locks_offset : (1 - count_true (firstn 1 locks))%nat = p.
Proof. unfold locks, p. cbn [firstn]. unfold count_true. destruct b0; reflexivity. Qed.

Lemma family_refines : forall rp mi pi0,
  Permutation mi (seq 0 p) -> Permutation pi0 (seq 0 q) ->
  idle_idx locks <> [] ->
  ~ perm (length (idle_idx locks)) (of_lists (idle_block W locks)) == 0 ->
  exists P, inf_retis_with rp mi pi0 1 W locks = Some P /\ is_Pspec_on_idle W locks (mget P).
Proof.
  intros rp mi pi0 Hmi Hpi Hidle Hperm.
  assert (HsqW : square (length locks) W) by (rewrite locks_length; exact W_square).
  assert (EU : unlocked W locks = U) by (apply unlocked_idle_block; exact HsqW).
  apply (inf_retis_with_fast rp mi pi0 1 W locks p q (fun _ => 1%nat) (fun _ => 1) kfp wp HsqW).
  - symmetry. exact locks_offset.
  - rewrite EU. exact U_length.
  - rewrite <- idx_length. fold idx in Hidle. destruct idx; [congruence | cbn; lia].
  - exact Hmi.
  - exact Hpi.
  - rewrite EU. exact minus_ustair.
  - rewrite EU. exact plus_ustair.
  - rewrite EU. fold idx in Hperm. rewrite idx_length in Hperm. exact Hperm.
Qed.

Lemma family_refines_argsort : forall rp, refines_Pspec rp W locks.
Proof.
  intros rp Hidle Hperm. unfold inf_retis.
  assert (HsqW : square (length locks) W) by (rewrite locks_length; exact W_square).
  assert (EU : unlocked W locks = U) by (apply unlocked_idle_block; exact HsqW).
  pose proof U_length as HlU.
  apply family_refines; try assumption.
  - pose proof (argsort_Permutation (minus_keys 1 W locks)) as H.
    unfold minus_keys in H at 2. cbv zeta in H. rewrite map_length in H.
    fold (unlocked W locks) in H. rewrite EU, locks_offset, firstn_length, HlU in H.
    replace (Nat.min p (p + q)) with p in H by lia. exact H.
  - pose proof (argsort_Permutation (pos_keys 1 W locks)) as H.
    unfold pos_keys in H at 2. cbv zeta in H. rewrite map_length in H.
    fold (unlocked W locks) in H. rewrite EU, locks_offset, skipn_length, HlU in H.
    replace (p + q - p)%nat with q in H by lia. exact H.
Qed.

End Family.

(* ------------------------------------------------------------------ *)
(* the statements                                                       *)

(* every tie order of the two argsort calls *)
Theorem wstair_uniform_refines_with : forall rp rows (b0 : bool) lk' mi pi0,
  (forall row, In row rows ->
     (1 <= length row <= length rows)%nat /\ exists w, ~ w == 0 /\ row = repeat w (length row)) ->
  length lk' = length rows ->
  Permutation mi (seq 0 (if b0 then 0%nat else 1%nat)) ->
  Permutation pi0 (seq 0 (length (idle_idx (lk' ++ [true])))) ->
  let W := wstair_matrix rows in
  let locks := b0 :: lk' ++ [true] in
  idle_idx locks <> [] ->
  ~ perm (length (idle_idx locks)) (of_lists (idle_block W locks)) == 0 ->
  exists P, inf_retis_with rp mi pi0 1 W locks = Some P /\ is_Pspec_on_idle W locks (mget P).
Proof.
  intros rp rows b0 lk' mi pi0 Hr Hlk Hmi Hpi W locks Hidle Hperm.
  apply (family_refines rows (fun r : nat => nth 0%nat (nth r rows []) 0) (fun r : nat => length (nth r rows []))); try assumption.
  intros r Hlt. assert (Hin : In (nth r rows []) rows) by (apply nth_In; exact Hlt).
  destruct (Hr _ Hin) as [[H1 H2] (w & Hw & E)].
  assert (E0 : nth 0 (nth r rows []) 0 = w).
  { rewrite E. destruct (length (nth r rows [])); [lia | reflexivity]. }
  rewrite E0. split; [exact E|]. split; [exact Hw | exact H2].
Qed.

(* inf_retis itself (the model's canonical stable argsort) *)
Theorem wstair_uniform_refines : forall rp rows lk,
  (forall row, In row rows ->
     (1 <= length row <= length rows)%nat /\ exists w, ~ w == 0 /\ row = repeat w (length row)) ->
  length lk = Datatypes.S (length rows) ->
  refines_Pspec rp (wstair_matrix rows) (lk ++ [true]).
Proof.
  intros rp rows lk Hr Hlk. destruct lk as [|b0 lk']; [discriminate|]. injection Hlk as Hlk.
  apply (family_refines_argsort rows (fun r : nat => nth 0%nat (nth r rows []) 0) (fun r : nat => length (nth r rows []))); try assumption.
  intros r Hlt. assert (Hin : In (nth r rows []) rows) by (apply nth_In; exact Hlt).
  destruct (Hr _ Hin) as [[H1 H2] (w & Hw & E)].
  assert (E0 : nth 0 (nth r rows []) 0 = w).
  { rewrite E. destruct (length (nth r rows [])); [lia | reflexivity]. }
  rewrite E0. split; [exact E|]. split; [exact Hw | exact H2].
Qed.

(* every 0/1 staircase, every size (sweep01_sound of PermP.v without the bound on m) *)
Corollary stair01_refines : forall rp ks lk,
  (forall k, In k ks -> (1 <= k <= length ks)%nat) ->
  length lk = Datatypes.S (length ks) ->
  refines_Pspec rp (stair_matrix ks) (lk ++ [true]).
Proof.
  intros rp ks lk Hk Hlk. unfold stair_matrix. apply wstair_uniform_refines.
  - intros row Hin. apply in_map_iff in Hin as (k & <- & Hin). rewrite map_length, repeat_length.
    split; [apply Hk; exact Hin|]. exists 1. split; [discriminate | reflexivity].
  - rewrite map_length. exact Hlk.
Qed.

Print Assumptions wstair_uniform_refines_with.
Print Assumptions wstair_uniform_refines.
Print Assumptions stair01_refines.
