(* Proofs about the path algebra model (property C15). *)
From Coq Require Import ZArith List Bool Lia.
Import ListNotations.
From Inf Require Import base.ListX model.PathM.
Open Scope Z_scope.

(* ---------------------------------------------------------------- append_all = firstn *)

Lemma append_all_spec p fs :
  pts (fst (append_all p fs)) = pts p ++ firstn (maxlen p - plen p) fs /\
  maxlen (fst (append_all p fs)) = maxlen p /\
  torigin (fst (append_all p fs)) = torigin p /\
  snd (append_all p fs) = (length fs <=? maxlen p - plen p)%nat.
Proof.
  revert p; induction fs as [|f r IH]; intros p; cbn [append_all].
  - cbn. rewrite firstn_nil, app_nil_r. auto.
  - unfold append. destruct (Nat.ltb_spec (plen p) (maxlen p)) as [Hlt|Hge].
    + specialize (IH (mkP (pts p ++ [f]) (maxlen p) (torigin p))).
      destruct IH as (I1 & I2 & I3 & I4).
      destruct (append_all (mkP (pts p ++ [f]) (maxlen p) (torigin p)) r) as [q b] eqn:E.
      unfold plen in *. cbn [fst snd pts maxlen torigin] in *.
      rewrite app_length in I1, I4. cbn [length] in I1, I4.
      replace (maxlen p - length (pts p))%nat with (S (maxlen p - (length (pts p) + 1)))%nat by lia.
      cbn [firstn]. rewrite I1, <- app_assoc. cbn [app]. repeat split; auto.
    + cbn [fst snd]. replace (maxlen p - plen p)%nat with 0%nat by lia.
      cbn [firstn]. rewrite app_nil_r. repeat split; auto.
Qed.

Lemma append_all_pts p fs :
  pts (fst (append_all p fs)) = pts p ++ firstn (maxlen p - plen p) fs.
Proof. apply append_all_spec. Qed.

Lemma append_all_from_empty m t fs :
  pts (fst (append_all (empty_path m t) fs)) = firstn m fs.
Proof. rewrite append_all_pts. cbn. now rewrite Nat.sub_0_r. Qed.

(* ---------------------------------------------------------------- paste *)

Definition forw_part (forw : path) (overlap : bool) : list frame :=
  if overlap then tl (pts forw) else pts forw.

Theorem paste_pts back forw ov m :
  pts (paste back forw ov (Some m)) = firstn m (rev (pts back) ++ forw_part forw ov).
Proof.
  unfold paste, forw_part.
  pose proof (append_all_spec (empty_path m (torigin back - Z.of_nat (plen back) + 1)) (rev (pts back))) as (H1 & H2 & H3 & H4).
  destruct (append_all (empty_path m (torigin back - Z.of_nat (plen back) + 1)) (rev (pts back))) as [p1 ok] eqn:E.
  cbn [fst snd] in *. cbn [empty_path pts maxlen plen length] in *. rewrite Nat.sub_0_r in *.
  rewrite app_nil_l in H1.
  destruct ok.
  - symmetry in H4. apply Nat.leb_le in H4.
    assert (Hf : firstn m (rev (pts back)) = rev (pts back)) by (apply firstn_all2; exact H4).
    rewrite append_all_pts, H2. unfold plen. rewrite H1, Hf.
    rewrite firstn_app, Hf. reflexivity.
  - symmetry in H4. apply Nat.leb_gt in H4.
    rewrite H1. rewrite firstn_app.
    replace (m - length (rev (pts back)))%nat with 0%nat by lia.
    cbn. now rewrite app_nil_r.
Qed.

Theorem paste_length back forw ov m :
  plen (paste back forw ov (Some m)) =
  Nat.min m (plen back + length (forw_part forw ov)).
Proof.
  unfold plen at 1. rewrite paste_pts, firstn_length, app_length, rev_length. reflexivity.
Qed.

Lemma forw_part_length forw ov :
  length (forw_part forw ov) = (plen forw - (if ov then 1 else 0))%nat.
Proof.
  unfold forw_part, plen. destruct ov; [|lia]. destruct (pts forw); cbn; lia.
Qed.

Theorem paste_length_explicit back forw ov m :
  plen (paste back forw ov (Some m)) =
  Nat.min m (plen back + (plen forw - (if ov then 1 else 0)))%nat.
Proof. rewrite paste_length, forw_part_length. reflexivity. Qed.

Theorem paste_maxlen_torigin back forw ov m :
  maxlen (paste back forw ov (Some m)) = m /\
  torigin (paste back forw ov (Some m)) = torigin back - Z.of_nat (plen back) + 1.
Proof.
  unfold paste.
  pose proof (append_all_spec (empty_path m (torigin back - Z.of_nat (plen back) + 1)) (rev (pts back))) as (H1 & H2 & H3 & H4).
  destruct (append_all (empty_path m (torigin back - Z.of_nat (plen back) + 1)) (rev (pts back))) as [p1 ok] eqn:E.
  cbn [fst snd] in *. destruct ok.
  - pose proof (append_all_spec p1 (if ov then tl (pts forw) else pts forw)) as (G1 & G2 & G3 & G4).
    rewrite G2, G3, H2, H3. auto.
  - rewrite H2, H3. auto.
Qed.

(* first frame = last frame of the backward segment *)
Theorem paste_first back forw ov m f :
  (0 < m)%nat -> last (pts back) f = f -> pts back <> [] ->
  hd_error (pts (paste back forw ov (Some m))) = Some f.
Proof.
  intros Hm Hl Hne. rewrite paste_pts.
  destruct (pts back) as [|b bs] eqn:E using rev_ind; [congruence|].
  rewrite last_last in Hl. subst b.
  rewrite rev_app_distr. cbn. destruct m; [lia|]. reflexivity.
Qed.

(* the pasted path only contains objects of the two inputs (no copies are made) *)
Theorem paste_shares back forw ov m x :
  In x (pts (paste back forw ov (Some m))) -> In x (pts back) \/ In x (pts forw).
Proof.
  rewrite paste_pts. intros H. apply firstn_In in H. apply in_app_or in H as [H|H].
  - left. now apply in_rev.
  - right. unfold forw_part in H. destruct ov; auto. destruct (pts forw); cbn in *; auto.
Qed.

(* time ordering: frames keep their relative order: reversed backward then forward *)
Theorem paste_untruncated back forw ov m :
  (plen back + length (forw_part forw ov) <= m)%nat ->
  pts (paste back forw ov (Some m)) = rev (pts back) ++ forw_part forw ov.
Proof.
  intros H. rewrite paste_pts. apply firstn_all2. rewrite app_length, rev_length. exact H.
Qed.

(* ---------------------------------------------------------------- reverse / copy *)

Definition same_frame (a b : frame) : Prop :=
  ford a = ford b /\ ftag a = ftag b /\ frev a = frev b.

Definition erase (f : frame) : Z * Z * bool := (ford f, ftag f, frev f).

Lemma erase_copy_frames n fs : map erase (copy_frames n fs) = map erase fs.
Proof. revert n; induction fs; intros; cbn; [auto|]. now rewrite IHfs. Qed.

Lemma copy_frames_length n fs : length (copy_frames n fs) = length fs.
Proof. revert n; induction fs; intros; cbn; auto. Qed.

Lemma copy_frames_oid n fs x : In x (copy_frames n fs) -> (n <= foid x)%nat.
Proof.
  revert n; induction fs as [|f r IH]; intros n H; cbn in H; [tauto|].
  destruct H as [<-|H]; [cbn; lia|]. apply IH in H. lia.
Qed.

Definition eflip (e : Z * Z * bool) : Z * Z * bool := let '(o, t, r) := e in (o, t, negb r).

Lemma erase_flip l : map erase (map flip l) = map eflip (map erase l).
Proof. induction l; cbn; [auto|]. now rewrite IHl. Qed.

Theorem reverse_frames next p rv :
  (plen p <= maxlen p)%nat ->
  map erase (pts (reverse next p rv)) =
  if rv then map eflip (rev (map erase (pts p))) else rev (map erase (pts p)).
Proof.
  intros H. unfold reverse. rewrite append_all_from_empty.
  rewrite firstn_all2.
  - destruct rv.
    + now rewrite erase_flip, erase_copy_frames, map_rev.
    + now rewrite erase_copy_frames, map_rev.
  - destruct rv; rewrite ?map_length, copy_frames_length, rev_length; exact H.
Qed.

Theorem reverse_length next p rv :
  plen (reverse next p rv) = Nat.min (maxlen p) (plen p).
Proof.
  unfold plen at 1, reverse. rewrite append_all_from_empty, firstn_length.
  destruct rv; rewrite ?map_length, copy_frames_length, rev_length; reflexivity.
Qed.

Lemma eflip_invol e : eflip (eflip e) = e.
Proof. destruct e as [[o t] r]. cbn. now rewrite negb_involutive. Qed.

Lemma reverse_maxlen next p rv : maxlen (reverse next p rv) = maxlen p.
Proof. unfold reverse. match goal with |- maxlen (fst (append_all ?a ?b)) = _ => destruct (append_all_spec a b) as (_ & H & _) end. exact H. Qed.

Theorem reverse_involutive n1 n2 p rv :
  (plen p <= maxlen p)%nat ->
  map erase (pts (reverse n2 (reverse n1 p rv) rv)) = map erase (pts p).
Proof.
  intros H. rewrite reverse_frames.
  - rewrite reverse_frames by exact H. destruct rv.
    + rewrite <- map_rev, rev_involutive, map_map.
      rewrite <- (map_id (map erase (pts p))) at 2. apply map_ext. apply eflip_invol.
    + now rewrite rev_involutive.
  - rewrite reverse_length, reverse_maxlen. lia.
Qed.

Theorem reverse_fresh next p rv x :
  In x (pts (reverse next p rv)) -> (next <= foid x)%nat.
Proof.
  unfold reverse. rewrite append_all_from_empty. intros H. apply firstn_In in H.
  destruct rv.
  - apply in_map_iff in H as (y & <- & Hy). cbn. now apply copy_frames_oid in Hy.
  - now apply copy_frames_oid in H.
Qed.

Theorem copy_frames_same next p :
  (plen p <= maxlen p)%nat ->
  map erase (pts (copy next p)) = map erase (pts p) /\
  maxlen (copy next p) = maxlen p /\ torigin (copy next p) = torigin p.
Proof.
  intros H. unfold copy. cbn [pts maxlen torigin]. rewrite append_all_from_empty.
  rewrite firstn_all2 by (rewrite copy_frames_length; exact H).
  now rewrite erase_copy_frames.
Qed.

(* every frame object of a copy is new: re-assigning its fields cannot touch an object
   of the original as long as [next] is above every identity in use *)
Theorem copy_fresh next p x :
  In x (pts (copy next p)) -> (next <= foid x)%nat.
Proof.
  unfold copy. cbn [pts]. rewrite append_all_from_empty. intros H.
  apply firstn_In in H. now apply copy_frames_oid in H.
Qed.

Corollary copy_disjoint next p x y :
  (forall z, In z (pts p) -> (foid z < next)%nat) ->
  In x (pts (copy next p)) -> In y (pts p) -> foid x <> foid y.
Proof. intros Hb Hx Hy. apply copy_fresh in Hx. apply Hb in Hy. lia. Qed.

Theorem iadd_pts next p other :
  map erase (pts (iadd next p other)) =
  map erase (pts p) ++ firstn (maxlen p - plen p) (map erase (pts other)).
Proof.
  unfold iadd. rewrite append_all_pts, map_app, <- firstn_map, erase_copy_frames. reflexivity.
Qed.

(* ---------------------------------------------------------------- extremes *)

Lemma argmin_from_spec l : forall best bi i,
  let r := argmin_from best bi i l in
  (forall x, In x l -> fst r <= x) /\ fst r <= best /\ (fst r = best \/ In (fst r) l).
Proof.
  induction l as [|x l IH]; intros best bi i; cbn.
  - repeat split; try lia; tauto.
  - destruct (Z.ltb_spec x best).
    + destruct (IH x i (S i)) as (A & B & C). repeat split.
      * intros y [<-|Hy]; auto.
      * lia.
      * destruct C as [C|C]; [right; left; auto | right; right; auto].
    + destruct (IH best bi (S i)) as (A & B & C). repeat split.
      * intros y [<-|Hy]; [lia | auto].
      * lia.
      * destruct C; auto.
Qed.

Lemma argmax_from_spec l : forall best bi i,
  let r := argmax_from best bi i l in
  (forall x, In x l -> x <= fst r) /\ best <= fst r /\ (fst r = best \/ In (fst r) l).
Proof.
  induction l as [|x l IH]; intros best bi i; cbn.
  - repeat split; try lia; tauto.
  - destruct (Z.ltb_spec best x).
    + destruct (IH x i (S i)) as (A & B & C). repeat split.
      * intros y [<-|Hy]; auto.
      * lia.
      * destruct C as [C|C]; [right; left; auto | right; right; auto].
    + destruct (IH best bi (S i)) as (A & B & C). repeat split.
      * intros y [<-|Hy]; [lia | auto].
      * lia.
      * destruct C; auto.
Qed.

Theorem ordermin_extreme p v i :
  ordermin p = Some (v, i) -> In v (orders p) /\ forall x, In x (orders p) -> v <= x.
Proof.
  unfold ordermin. destruct (orders p) as [|x r]; [discriminate|].
  intros H. injection H as H. pose proof (argmin_from_spec r x 0%nat 1%nat) as (A & B & C).
  rewrite H in *. cbn [fst] in *. split.
  - destruct C; [left; auto | right; auto].
  - intros y [<-|Hy]; auto.
Qed.

Theorem ordermax_extreme p v i :
  ordermax p = Some (v, i) -> In v (orders p) /\ forall x, In x (orders p) -> x <= v.
Proof.
  unfold ordermax. destruct (orders p) as [|x r]; [discriminate|].
  intros H. injection H as H. pose proof (argmax_from_spec r x 0%nat 1%nat) as (A & B & C).
  rewrite H in *. cbn [fst] in *. split.
  - destruct C; [left; auto | right; auto].
  - intros y [<-|Hy]; auto.
Qed.

(* index returned is the first position of the extreme value *)
Lemma argmin_from_index l : forall best bi i pre,
  (length pre = i)%nat -> nth_error pre bi = Some best -> (forall k y, (k < bi)%nat -> nth_error pre k = Some y -> best < y) ->
  (forall y, In y pre -> best <= y) ->
  let r := argmin_from best bi i l in
  nth_error (pre ++ l) (snd r) = Some (fst r) /\
  forall k y, (k < snd r)%nat -> nth_error (pre ++ l) k = Some y -> fst r < y.
Proof.
  induction l as [|x l IH]; intros best bi i pre Hlen Hb Hfirst Hall; cbn.
  - rewrite app_nil_r. split; auto.
  - destruct (Z.ltb_spec x best).
    + specialize (IH x i (S i) (pre ++ [x])).
      rewrite <- app_assoc in IH. cbn in IH. apply IH.
      * rewrite app_length. cbn. lia.
      * rewrite nth_error_app2 by lia. replace (i - length pre)%nat with 0%nat by lia. reflexivity.
      * intros k y Hk Hy. rewrite nth_error_app1 in Hy by lia.
        apply nth_error_In in Hy. apply Hall in Hy. lia.
      * intros y Hy. apply in_app_or in Hy as [Hy|[<-|[]]]; [apply Hall in Hy|]; lia.
    + specialize (IH best bi (S i) (pre ++ [x])).
      rewrite <- app_assoc in IH. cbn in IH. apply IH.
      * rewrite app_length. cbn. lia.
      * rewrite nth_error_app1; auto. apply nth_error_Some. congruence.
      * intros k y Hk Hy. assert (bi < length pre)%nat by (apply nth_error_Some; congruence).
        rewrite nth_error_app1 in Hy by lia. eauto.
      * intros y Hy. apply in_app_or in Hy as [Hy|[<-|[]]]; [apply Hall in Hy|]; lia.
Qed.

Theorem ordermin_first_index p v i :
  ordermin p = Some (v, i) ->
  nth_error (orders p) i = Some v /\ forall k y, (k < i)%nat -> nth_error (orders p) k = Some y -> v < y.
Proof.
  unfold ordermin. destruct (orders p) as [|x r]; [discriminate|].
  intros H. injection H as H.
  pose proof (argmin_from_index r x 0%nat 1%nat [x] eq_refl eq_refl) as G.
  rewrite H in G. cbn [fst snd app] in G. apply G.
  - intros; lia.
  - intros y [<-|[]]; lia.
Qed.

(* ---------------------------------------------------------------- classification *)

Lemma zmin_list_spec l : forall d, (forall x, In x (d :: l) -> zmin_list d l <= x) /\ In (zmin_list d l) (d :: l).
Proof.
  induction l as [|a l IH]; intros d; cbn.
  - split; [intros x [<-|[]]; lia | auto].
  - destruct (IH (Z.min d a)) as (A & B). split.
    + intros x [<-|[<-|Hx]].
      * specialize (A (Z.min d a) (or_introl eq_refl)). unfold zmin_list in *. lia.
      * specialize (A (Z.min d a) (or_introl eq_refl)). unfold zmin_list in *. lia.
      * apply A. right; auto.
    + destruct B as [B|B]; [|right; right; auto]. unfold zmin_list in *. rewrite <- B.
      destruct (Z.min_spec d a) as [[_ ->]|[_ ->]]; auto.
Qed.

Lemma zmax_list_spec l : forall d, (forall x, In x (d :: l) -> x <= zmax_list d l) /\ In (zmax_list d l) (d :: l).
Proof.
  induction l as [|a l IH]; intros d; cbn.
  - split; [intros x [<-|[]]; lia | auto].
  - destruct (IH (Z.max d a)) as (A & B). split.
    + intros x [<-|[<-|Hx]].
      * specialize (A (Z.max d a) (or_introl eq_refl)). unfold zmax_list in *. lia.
      * specialize (A (Z.max d a) (or_introl eq_refl)). unfold zmax_list in *. lia.
      * apply A. right; auto.
    + destruct B as [B|B]; [|right; right; auto]. unfold zmax_list in *. rewrite <- B.
      destruct (Z.max_spec d a) as [[_ ->]|[_ ->]]; auto.
Qed.

(* the full statement of the classification part of C15 *)
Theorem check_interfaces_spec p intf r :
  check_interfaces p intf = Some r ->
  exists omin omax first lastv left right,
    (* extremes are attained and extreme *)
    In omin (orders p) /\ In omax (orders p) /\
    (forall x, In x (orders p) -> omin <= x <= omax) /\
    hd_error (orders p) = Some first /\ hd_error (rev (orders p)) = Some lastv /\
    In left intf /\ In right intf /\ (forall l, In l intf -> left <= l <= right) /\
    (* crossing flags agree with the extremes, one per interface *)
    ci_cross r = map (fun l => (omin <? l) && (l <=? omax)) intf /\
    (forall k l, nth_error intf k = Some l ->
        nth_error (ci_cross r) k = Some true <-> omin < l <= omax) /\
    ci_middle r = nth 1 (ci_cross r) false /\
    (* start and end letters agree with the first / last value *)
    ci_start r = Some (classify left right first) /\
    ci_end r = Some (classify left right lastv).
Proof.
  unfold check_interfaces.
  destruct (ordermin p) as [[omin imin]|] eqn:Emin; [|discriminate].
  destruct (ordermax p) as [[omax imax]|] eqn:Emax; [|discriminate].
  destruct intf as [|i0 irest]; [discriminate|].
  intros H. injection H as <-. cbn [ci_cross ci_middle ci_start ci_end].
  destruct (ordermin_extreme _ _ _ Emin) as (M1 & M2).
  destruct (ordermax_extreme _ _ _ Emax) as (X1 & X2).
  destruct (zmin_list_spec irest i0) as (L1 & L2).
  destruct (zmax_list_spec irest i0) as (R1 & R2).
  assert (Hne : orders p <> []) by (intros E; rewrite E in M1; destruct M1).
  destruct (orders p) as [|first rest] eqn:Eo; [congruence|].
  assert (Hlast : exists lastv, hd_error (rev (first :: rest)) = Some lastv).
  { destruct (rev (first :: rest)) eqn:Er; [|cbn; eauto].
    apply (f_equal (@length Z)) in Er. rewrite rev_length in Er. cbn in Er. lia. }
  destruct Hlast as (lastv & Hlast).
  exists omin, omax, first, lastv, (zmin_list i0 irest), (zmax_list i0 irest).
  assert (Hlr : zmin_list i0 irest <= zmax_list i0 irest).
  { specialize (L1 i0 (or_introl eq_refl)). specialize (R1 i0 (or_introl eq_refl)). lia. }
  assert (Hcross : forall k l, nth_error (i0 :: irest) k = Some l ->
      nth_error (map (fun l => (omin <? l) && (l <=? omax)) (i0 :: irest)) k = Some true <-> omin < l <= omax).
  { intros k l Hk. rewrite nth_error_map, Hk. cbn [option_map]. split.
    - intros E. injection E as E. apply andb_true_iff in E as [A B].
      apply Z.ltb_lt in A. apply Z.leb_le in B. lia.
    - intros [A B]. f_equal. apply andb_true_iff. split; [apply Z.ltb_lt | apply Z.leb_le]; lia. }
  split; [exact M1|]. split; [exact X1|].
  split; [intros x Hx; split; [apply M2 | apply X2]; exact Hx|].
  split; [reflexivity|]. split; [exact Hlast|].
  split; [exact L2|]. split; [exact R2|].
  split; [intros l Hl; split; [apply L1 | apply R1]; exact Hl|].
  split; [reflexivity|]. split; [exact Hcross|]. split; [reflexivity|].
  split.
  - unfold start_point. rewrite Eo. destruct (Z.ltb_spec (zmax_list i0 irest) (zmin_list i0 irest)); [lia|reflexivity].
  - unfold end_point. rewrite Eo. cbn [hd_error] in Hlast.
    destruct (rev (first :: rest)) as [|z zs]; [discriminate|]. injection Hlast as ->.
    destruct (Z.ltb_spec (zmax_list i0 irest) (zmin_list i0 irest)); [lia|reflexivity].
Qed.

Theorem classify_spec left right x :
  left <= right ->
  (classify left right x = SL <-> x <= left) /\
  (classify left right x = SR <-> (left < x /\ right <= x)) /\
  (classify left right x = SNone <-> left < x < right).
Proof.
  intros H. unfold classify.
  destruct (Z.leb_spec x left); destruct (Z.leb_spec right x);
    repeat split; intros; try discriminate; try lia; auto.
Qed.

(* success(target): some progress coordinate lies strictly above the target *)
Theorem success_spec p t b :
  success p t = Some b -> (b = true <-> exists x, In x (orders p) /\ t < x).
Proof.
  unfold success. destruct (ordermax p) as [[omax i]|] eqn:E; [|discriminate].
  intros H. injection H as <-.
  destruct (ordermax_extreme _ _ _ E) as (Hin & Hmax).
  split.
  - intros Hlt. apply Z.ltb_lt in Hlt. exists omax. split; assumption.
  - intros (x & Hx & Hlt). apply Z.ltb_lt. specialize (Hmax x Hx). lia.
Qed.

Theorem success_defined p t : success p t = None <-> pts p = [].
Proof.
  unfold success, ordermax, orders. destruct (pts p) as [|f r]; cbn.
  - split; reflexivity.
  - destruct (argmax_from (ford f) 0%nat 1%nat (map ford r)). split; discriminate.
Qed.

(* ---------------------------------------------------------------- whole frames
   [ftag] is the opaque payload of a frame: it stands for EVERY attribute of the System
   object other than order[0] and vel_rev (config, order[1:], pos, vel, ekin, vpot, box,
   temperature, attributes attached later ...).  The statements below spell out what the
   [erase]-based theorems above say about it, field by field and frame by frame. *)

Lemma copy_frame_whole o f : same_frame (copy_frame o f) f /\ foid (copy_frame o f) = o.
Proof. unfold same_frame. cbn. auto. Qed.

Lemma erase_same l1 : forall l2, map erase l1 = map erase l2 -> Forall2 same_frame l1 l2.
Proof.
  induction l1 as [|a r IH]; intros [|b s] H; cbn in H; try discriminate; constructor.
  - unfold erase in H. injection H as Ho Ht Hr _. unfold same_frame. auto.
  - apply IH. now injection H.
Qed.

Lemma erase_ford l : map ford l = map (fun e : Z * Z * bool => fst (fst e)) (map erase l).
Proof. rewrite map_map. apply map_ext. reflexivity. Qed.
Lemma erase_ftag l : map ftag l = map (fun e : Z * Z * bool => snd (fst e)) (map erase l).
Proof. rewrite map_map. apply map_ext. reflexivity. Qed.
Lemma erase_frev l : map frev l = map (fun e : Z * Z * bool => snd e) (map erase l).
Proof. rewrite map_map. apply map_ext. reflexivity. Qed.

(* a single reverse: frame order reversed, velocity flag flipped iff asked, and nothing
   else — order parameter and payload of every frame are kept *)
Theorem reverse_only_flag next p rv :
  (plen p <= maxlen p)%nat ->
  map ford (pts (reverse next p rv)) = rev (map ford (pts p)) /\
  map ftag (pts (reverse next p rv)) = rev (map ftag (pts p)) /\
  map frev (pts (reverse next p rv)) = rev (map (fun f => xorb rv (frev f)) (pts p)).
Proof.
  intros H. pose proof (reverse_frames next p rv H) as E.
  rewrite (erase_ford (pts (reverse next p rv))), (erase_ftag (pts (reverse next p rv))),
          (erase_frev (pts (reverse next p rv))), E.
  destruct rv; rewrite <- ?map_rev, ?map_map; repeat split; apply map_ext;
    intros f; unfold erase, eflip; cbn; try reflexivity.
  now destruct (frev f).
Qed.

Theorem reverse_twice_whole n1 n2 p rv :
  (plen p <= maxlen p)%nat ->
  Forall2 same_frame (pts (reverse n2 (reverse n1 p rv) rv)) (pts p).
Proof. intros H. apply erase_same. now apply reverse_involutive. Qed.

Theorem copy_whole next p :
  (plen p <= maxlen p)%nat -> Forall2 same_frame (pts (copy next p)) (pts p).
Proof. intros H. apply erase_same. now apply copy_frames_same. Qed.

Lemma nth_error_firstn_some {A} (l : list A) : forall n k x,
  nth_error (firstn n l) k = Some x -> nth_error l k = Some x.
Proof.
  induction l as [|a r IH]; intros [|n] [|k] x H; cbn in *; try discriminate; auto.
  now apply IH in H.
Qed.

(* paste allocates nothing and rewrites nothing: frame k of the result IS (all fields and
   the object identity) frame k of the reversed backward segment followed by the forward one *)
Theorem paste_keeps_frames back forw ov m k x :
  nth_error (pts (paste back forw ov (Some m))) k = Some x ->
  nth_error (rev (pts back) ++ forw_part forw ov) k = Some x.
Proof. rewrite paste_pts. apply nth_error_firstn_some. Qed.

(* self += other keeps its own frames (same objects) and appends whole copies *)
Theorem iadd_whole next p other :
  exists added,
    pts (iadd next p other) = pts p ++ added /\
    Forall2 same_frame added (firstn (maxlen p - plen p) (pts other)) /\
    forall x, In x added -> (next <= foid x)%nat.
Proof.
  unfold iadd. rewrite append_all_pts.
  exists (firstn (maxlen p - plen p) (copy_frames next (pts other))). split; [reflexivity|]. split.
  - apply erase_same. rewrite <- !firstn_map, erase_copy_frames. reflexivity.
  - intros x Hx. apply firstn_In in Hx. now apply copy_frames_oid in Hx.
Qed.
