(* Proofs about the moves model (property C09). *)
From Coq Require Import ZArith QArith List Bool Lia.
Import ListNotations.
From Inf Require Import model.PathM model.EngineM model.WeightM model.MovesM proofs.PathP.
Open Scope Z_scope.

(* ================================================================== the stop rule *)

(* fx = false is literally the rule modelled in EngineM (the code as it is) *)
Lemma add_to_path_g_false p f l r : add_to_path_g false p f l r = add_to_path p f l r.
Proof.
  unfold add_to_path_g, add_to_path. destruct (append p f) as [p1 add].
  destruct (rev (pts p1)) as [|f0 ?]; [reflexivity|].
  destruct (ford f0 <? l); [now rewrite andb_true_r|].
  destruct (r <? ford f0); now rewrite andb_true_r.
Qed.

Lemma propagate_loop_g_false s : forall p l r n,
  propagate_loop_g false p s l r n = propagate_loop p s l r n.
Proof.
  induction s as [|f s IH]; intros p l r n; cbn; [reflexivity|].
  rewrite add_to_path_g_false. destruct (add_to_path p f l r) as [[[[p1 su] st] ad]|]; [|reflexivity].
  destruct st; [reflexivity|apply IH].
Qed.

Definition outb (l r : Z) (o : Z) : bool := (o <? l) || (r <? o).

Lemma outb_true l r o : outb l r o = true <-> (o < l \/ r < o).
Proof. unfold outb. rewrite orb_true_iff, !Z.ltb_lt. tauto. Qed.

Lemma outb_false l r o : outb l r o = false <-> (l <= o <= r).
Proof. unfold outb. rewrite orb_false_iff, !Z.ltb_ge. tauto. Qed.

Definition app_path (p : path) (fs : list frame) : path := mkP (pts p ++ fs) (maxlen p) (torigin p).

Lemma add_to_path_g_room fx p f l r :
  (plen p < maxlen p)%nat ->
  add_to_path_g fx p f l r =
  Some (app_path p [f],
        outb l r (ford f) && negb ((S (plen p) =? maxlen p)%nat && negb fx),
        outb l r (ford f) || (S (plen p) =? maxlen p)%nat,
        true).
Proof.
  intros Hlt. unfold add_to_path_g, append.
  destruct (Nat.ltb_spec (plen p) (maxlen p)) as [_|H]; [|lia].
  cbn [pts]. rewrite rev_app_distr. cbn [rev app].
  unfold plen at 1. cbn [pts maxlen]. rewrite app_length. cbn [length].
  replace (length (pts p) + 1)%nat with (S (plen p)) by (unfold plen; lia).
  unfold outb, app_path.
  destruct (ford f <? l); cbn [orb].
  - destruct (S (plen p) =? maxlen p)%nat, fx; reflexivity.
  - destruct (r <? ford f); destruct (S (plen p) =? maxlen p)%nat, fx; reflexivity.
Qed.

(* index of the first frame that is outside [l, r] *)
Fixpoint first_out (l r : Z) (os : list Z) : option nat :=
  match os with
  | [] => None
  | o :: rest => if outb l r o then Some 0%nat else option_map S (first_out l r rest)
  end.

Lemma first_out_spec l r os j :
  first_out l r os = Some j <->
  (exists o, nth_error os j = Some o /\ outb l r o = true) /\
  (forall k o, (k < j)%nat -> nth_error os k = Some o -> outb l r o = false).
Proof.
  revert j; induction os as [|a os IH]; intros j; cbn [first_out].
  - split; [discriminate|]. intros ((o & H & _) & _). destruct j; discriminate.
  - destruct (outb l r a) eqn:Ea.
    + split.
      * intros H. injection H as <-. split; [exists a; auto|]. intros k o Hk. lia.
      * intros ((o & Ho & Hout) & Hall). destruct j as [|j]; [reflexivity|].
        specialize (Hall 0%nat a ltac:(lia) eq_refl). congruence.
    + destruct (first_out l r os) as [j'|] eqn:Ef; cbn [option_map].
      * split.
        -- intros H. injection H as <-. destruct (proj1 (IH j') eq_refl) as ((o & Ho & Hout) & Hall).
           split; [exists o; auto|]. intros [|k] o' Hk Hn; cbn in Hn; [congruence|].
           apply (Hall k); [lia|exact Hn].
        -- intros ((o & Ho & Hout) & Hall). destruct j as [|j]; [cbn in Ho; congruence|].
           f_equal. cbn in Ho.
           assert (E : Some j' = Some j); [|congruence]. apply IH.
           split; [exists o; auto|]. intros k o' Hk Hn. apply (Hall (S k)); [lia|exact Hn].
      * split; [discriminate|]. intros ((o & Ho & Hout) & Hall).
        destruct j as [|j]; [cbn in Ho; congruence|]. cbn in Ho.
        assert (E : None = Some j); [|discriminate]. apply IH.
        split; [exists o; auto|]. intros k o' Hk Hn. apply (Hall (S k)); [lia|exact Hn].
Qed.

Lemma first_out_lt l r os j : first_out l r os = Some j -> (j < length os)%nat.
Proof. intros H. apply first_out_spec in H as ((o & Ho & _) & _). apply nth_error_Some. congruence. Qed.

(* searching a prefix finds the same index, or nothing *)
Lemma first_out_firstn l r os : forall m,
  first_out l r (firstn m os) =
  match first_out l r os with
  | Some j => if (j <? m)%nat then Some j else None
  | None => None
  end.
Proof.
  induction os as [|a os IH]; intros m; [now rewrite firstn_nil|].
  destruct m as [|m]; cbn [firstn first_out].
  - destruct (outb l r a); [reflexivity|]. now destruct (first_out l r os).
  - destruct (outb l r a); [reflexivity|]. rewrite IH.
    destruct (first_out l r os) as [j|]; cbn [option_map]; [|reflexivity].
    change (S j <? S m)%nat with (j <? m)%nat. now destruct (j <? m)%nat.
Qed.

(* what one propagate call returns, as a function of the first outside frame within reach *)
Definition prop_expect (fx : bool) (p : path) (s : list frame) (l r : Z) (n : nat)
  : option (path * bool * nat) :=
  let room := (maxlen p - plen p)%nat in
  match first_out l r (map ford (firstn room s)) with
  | Some j =>
      if fx || (S j <? room)%nat then Some (app_path p (firstn (S j) s), true, (n + S j)%nat)
      else Some (app_path p (firstn room s), false, (n + room)%nat)
  | None =>
      if (room <=? length s)%nat then Some (app_path p (firstn room s), false, (n + room)%nat) else None
  end.

Lemma app_path_app p a b : app_path (app_path p a) b = app_path p (a ++ b).
Proof. unfold app_path. cbn. now rewrite app_assoc. Qed.

Ltac solve_eq := cbn [Nat.ltb Nat.leb firstn]; repeat (f_equal; try lia).

Lemma propagate_loop_g_char fx l r : forall s p n,
  (plen p < maxlen p)%nat ->
  match propagate_loop_g fx p s l r n with
  | PR p' ok c => prop_expect fx p s l r n = Some (p', ok, c)
  | PRExhausted _ => prop_expect fx p s l r n = None
  | PRError => False
  end.
Proof.
  induction s as [|f s IH]; intros p n Hlt.
  - cbn. unfold prop_expect. rewrite firstn_nil. cbn.
    destruct (Nat.leb_spec (maxlen p - plen p) 0); [lia|reflexivity].
  - cbn [propagate_loop_g]. rewrite add_to_path_g_room by exact Hlt.
    unfold prop_expect.
    destruct (maxlen p - plen p)%nat as [|room'] eqn:Er; [lia|].
    cbn [firstn map first_out].
    destruct (outb l r (ford f)) eqn:Eo; cbn [orb andb].
    + (* crossing frame *)
      destruct (Nat.eqb_spec (S (plen p)) (maxlen p)) as [Ef|Ef].
      * assert (room' = 0)%nat by lia. subst room'.
        cbn [negb andb]. destruct fx; cbn [negb orb]; cbn [firstn]; solve_eq.
      * cbn [negb andb].
        destruct (Nat.ltb_spec 1 (S room')); [|lia]. rewrite orb_true_r.
        cbn [firstn]. solve_eq.
    + destruct (Nat.eqb_spec (S (plen p)) (maxlen p)) as [Ef|Ef].
      * (* limit reached on an inside frame *)
        assert (room' = 0)%nat by lia. subst room'. cbn [firstn map first_out option_map].
        cbn [length Nat.leb]. cbn [firstn]. solve_eq.
      * (* continue *)
        specialize (IH (app_path p [f]) (S n)).
        assert (Hlt' : (plen (app_path p [f]) < maxlen (app_path p [f]))%nat).
        { unfold plen, app_path. cbn. rewrite app_length. cbn. unfold plen in *. lia. }
        specialize (IH Hlt').
        assert (Eroom : (maxlen (app_path p [f]) - plen (app_path p [f]))%nat = room').
        { unfold plen, app_path. cbn. rewrite app_length. cbn. unfold plen in *. lia. }
        unfold prop_expect in IH. rewrite Eroom in IH.
        destruct (propagate_loop_g fx (app_path p [f]) s l r (S n)) as [p' ok c|p'|];
          [| |exact IH].
        -- destruct (first_out l r (map ford (firstn room' s))) as [j|]; cbn [option_map].
           ++ change (S (S j) <? S room')%nat with (S j <? room')%nat.
              destruct (fx || (S j <? room')%nat).
              ** rewrite app_path_app in IH. cbn [app firstn] in *.
                 rewrite <- IH. solve_eq.
              ** rewrite app_path_app in IH. cbn [app firstn] in *.
                 rewrite <- IH. solve_eq.
           ++ cbn [length]. change (S room' <=? S (length s))%nat with (room' <=? length s)%nat.
              destruct (room' <=? length s)%nat; [|discriminate].
              rewrite app_path_app in IH. cbn [app firstn] in *. rewrite <- IH. solve_eq.
        -- destruct (first_out l r (map ford (firstn room' s))) as [j|]; cbn [option_map].
           ++ change (S (S j) <? S room')%nat with (S j <? room')%nat.
              destruct (fx || (S j <? room')%nat); discriminate.
           ++ cbn [length]. change (S room' <=? S (length s))%nat with (room' <=? length s)%nat.
              destruct (room' <=? length s)%nat; [discriminate|reflexivity].
Qed.

(* ================================================================== one propagate call *)

Lemma map_ford_number_from n rv os : forall k, map ford (number_from n k rv os) = os.
Proof. induction os as [|o os IH]; intros k; cbn; [reflexivity|]. now rewrite IH. Qed.

Lemma number_from_length n rv os : forall k, length (number_from n k rv os) = length os.
Proof. induction os as [|o os IH]; intros k; cbn; [reflexivity|]. now rewrite IH. Qed.

Lemma number_from_frev n rv os : forall k f, In f (number_from n k rv os) -> frev f = rv.
Proof.
  induction os as [|o os IH]; intros k f H; cbn in H; [tauto|].
  destruct H as [<-|H]; [reflexivity|eauto].
Qed.

Lemma mk_stream_orders n rv o0 os : map ford (mk_stream n rv o0 os) = o0 :: os.
Proof. unfold mk_stream. apply map_ford_number_from. Qed.

Lemma mk_stream_length n rv o0 os : length (mk_stream n rv o0 os) = S (length os).
Proof. unfold mk_stream. now rewrite number_from_length. Qed.

(* result of propagate on an empty path with limit ml, offered the frames F *)
Definition prop_empty (fx : bool) (ml : nat) (t0 : Z) (F : list frame) (l r : Z) : option (path * bool) :=
  match first_out l r (map ford F) with
  | Some j =>
      if (j <? ml)%nat then
        if fx || (S j <? ml)%nat then Some (mkP (firstn (S j) F) ml t0, true)
        else Some (mkP (firstn ml F) ml t0, false)
      else Some (mkP (firstn ml F) ml t0, false)
  | None => if (ml <=? length F)%nat then Some (mkP (firstn ml F) ml t0, false) else None
  end.

Lemma run_propagate_eq fx ml t0 rv o0 l r s :
  run_propagate fx ml t0 rv o0 l r s =
  match s_streams s with
  | [] => None
  | os :: rest =>
      if (ml =? 0)%nat then None else
      match prop_empty fx ml t0 (mk_stream (s_ncall s) rv o0 os) l r with
      | Some (p, ok) => Some (p, ok, mkS (s_draws s) (s_kicks s) rest (S (s_ncall s)))
      | None => None
      end
  end.
Proof.
  unfold run_propagate. destruct (s_streams s) as [|os rest]; [reflexivity|].
  set (F := mk_stream (s_ncall s) rv o0 os).
  destruct (Nat.eqb_spec ml 0) as [->|Hml].
  - (* limit 0: the first append fails and phasepoints[-1] raises *)
    unfold F, mk_stream, propagate_g. cbn [number_from propagate_loop_g].
    unfold add_to_path_g, append. cbn. reflexivity.
  - unfold propagate_g.
    pose proof (propagate_loop_g_char fx l r F (empty_path ml t0) 0%nat) as H.
    assert (Hlt : (plen (empty_path ml t0) < maxlen (empty_path ml t0))%nat) by (cbn; lia).
    specialize (H Hlt). unfold prop_expect in H. cbn [empty_path maxlen plen pts length] in H.
    rewrite Nat.sub_0_r in H. rewrite <- firstn_map, first_out_firstn in H.
    unfold prop_empty.
    assert (Hmk : forall k, app_path (empty_path ml t0) (firstn k F) = mkP (firstn k F) ml t0) by reflexivity.
    destruct (propagate_loop_g fx (empty_path ml t0) F l r 0) as [p' ok c|p'|]; [| |contradiction].
    + destruct (first_out l r (map ford F)) as [j|].
      * destruct (j <? ml)%nat.
        -- destruct (fx || (S j <? ml)%nat); rewrite Hmk in H; inversion H; subst; reflexivity.
        -- assert (Hlen : (ml <=? length F)%nat = true).
           { destruct (ml <=? length F)%nat; [reflexivity|discriminate]. }
           rewrite Hlen in H. rewrite Hmk in H. inversion H; subst. reflexivity.
      * destruct (ml <=? length F)%nat; [|discriminate].
        rewrite Hmk in H. inversion H; subst. reflexivity.
    + destruct (first_out l r (map ford F)) as [j|] eqn:Ef.
      * destruct (Nat.ltb_spec j ml).
        -- destruct (fx || (S j <? ml)%nat); discriminate.
        -- apply first_out_lt in Ef. rewrite map_length in Ef.
           destruct (Nat.leb_spec ml (length F)); [discriminate|lia].
      * destruct (ml <=? length F)%nat; [discriminate|reflexivity].
Qed.

(* the limit a crossing frame may sit on: ml with the repaired rule, ml - 1 with the current one *)
Definition lim (fx : bool) (ml : nat) : nat := if fx then ml else (ml - 1)%nat.

Lemma prop_empty_success fx ml t0 F l r p :
  prop_empty fx ml t0 F l r = Some (p, true) ->
  exists j, first_out l r (map ford F) = Some j /\ (S j <= lim fx ml)%nat /\ p = mkP (firstn (S j) F) ml t0.
Proof.
  unfold prop_empty, lim. destruct (first_out l r (map ford F)) as [j|].
  - destruct (Nat.ltb_spec j ml) as [Hj|Hj].
    + destruct fx; cbn [orb].
      * intros H. injection H as <-. exists j. repeat split; lia.
      * destruct (Nat.ltb_spec (S j) ml) as [Hj'|Hj']; intros H; [|discriminate].
        injection H as <-. exists j. repeat split; lia.
    + discriminate.
  - destruct (ml <=? length F)%nat; discriminate.
Qed.

Lemma prop_empty_complete fx ml t0 F l r j :
  first_out l r (map ford F) = Some j -> (1 <= ml)%nat ->
  prop_empty fx ml t0 F l r =
  if (S j <=? lim fx ml)%nat then Some (mkP (firstn (S j) F) ml t0, true)
  else Some (mkP (firstn ml F) ml t0, false).
Proof.
  intros Hf Hml. unfold prop_empty, lim. rewrite Hf.
  destruct fx; cbn [orb].
  - destruct (Nat.ltb_spec j ml) as [A|A], (Nat.leb_spec (S j) ml) as [B|B]; try lia; reflexivity.
  - destruct (Nat.ltb_spec j ml) as [A|A], (Nat.ltb_spec (S j) ml) as [B|B],
             (Nat.leb_spec (S j) (ml - 1)) as [C|C]; try lia; reflexivity.
Qed.

Lemma prop_empty_fail_len fx ml t0 F l r p :
  prop_empty fx ml t0 F l r = Some (p, false) -> (1 <= ml)%nat -> plen p = ml /\ maxlen p = ml.
Proof.
  unfold prop_empty. intros H Hml.
  assert (G : (ml <= length F)%nat -> plen (mkP (firstn ml F) ml t0) = ml).
  { intros Hl. unfold plen. cbn. rewrite firstn_length. lia. }
  destruct (first_out l r (map ford F)) as [j|] eqn:Ef.
  - apply first_out_lt in Ef. rewrite map_length in Ef.
    destruct (Nat.ltb_spec j ml) as [A|A].
    + destruct (fx || (S j <? ml)%nat) eqn:Eb; [discriminate|]. apply orb_false_iff in Eb as [_ Eb].
      apply Nat.ltb_ge in Eb. injection H as <-. split; [apply G; lia|reflexivity].
    + injection H as <-. split; [apply G; lia|reflexivity].
  - destruct (Nat.leb_spec ml (length F)) as [A|A]; [|discriminate]. injection H as <-. split; [apply G; lia|reflexivity].
Qed.

(* ================================================================== shoot: inversion of ACC *)

Definition kick_of (s : src) : option Z := match s_kicks s with [] => None | k :: _ => k end.
Definition kicks_rest (s : src) : list (option Z) := tl (s_kicks s).

Lemma kick_split s :
  match s_kicks s with [] => (@None Z, @nil (option Z)) | k :: r => (k, r) end = (kick_of s, kicks_rest s).
Proof. unfold kick_of, kicks_rest. now destruct (s_kicks s). Qed.

(* the order parameter of the shooting point after modify_velocities *)
Definition shot_order (s : src) (sp : frame) : Z :=
  match kick_of s with Some o => o | None => ford sp end.

Definition choose_maxlen (old_ld allowmax : bool) (L maxlength : nat) (ds : list Q)
           (ks : list (option Z)) (s : src) : option (nat * src) :=
  if old_ld || allowmax then Some (maxlength, mkS ds ks (s_streams s) (s_ncall s))
  else match ds with
       | [] => None
       | r :: ds' =>
           if Qnum r <=? 0 then None
           else Some (draw_maxlen L r maxlength, mkS ds' ks (s_streams s) (s_ncall s))
       end.

(* the three tests after a successful forward propagation *)
Definition final_checks (i0 i1 i2 : Z) (eL eR pL : bool) (trial : path) : status :=
  let '(cst, cen, cmid) :=
    match check_interfaces trial [i0; i1; i2] with
    | Some r => (ci_start r, ci_end r, nth 1 (ci_cross r) false)
    | None => (None, None, false)
    end in
  if negb pL && (is_SL cst || is_SL cen) then ZEROL
  else if negb (eL && eR) && negb cmid then NCR else ACC.

Record shoot_trace := mkT {
  t_u : Q; t_ds : list Q; t_sp : frame; t_ml : nat; t_s2 : src;
  t_back : path; t_s3 : src; t_ep : side; t_forw : path; t_s4 : src
}.

Definition shoot_acc_facts (fx : bool) (i0 i1 i2 : Z) (eL eR : bool) (maxlength : nat) (allowmax : bool)
           (pL pR : bool) (old : path) (old_ld : bool) (s : src) (t : shoot_trace) (r : result) : Prop :=
  let idx := shooting_index (t_u t) (plen old) in
  let o' := shot_order s (t_sp t) in
  let t0 := torigin old + Z.of_nat idx in
  s_draws s = t_u t :: t_ds t /\
  (3 <= plen old)%nat /\
  nth_error (pts old) idx = Some (t_sp t) /\
  i0 <= o' < i2 /\
  choose_maxlen old_ld allowmax (plen old) maxlength (t_ds t) (kicks_rest s) s = Some (t_ml t, t_s2 t) /\
  run_propagate fx (t_ml t - 1) t0 true o' i0 i2 (t_s2 t) = Some (t_back t, true, t_s3 t) /\
  end_point (t_back t) i0 i2 = Some (t_ep t) /\
  in_sc pL pR (Some (t_ep t)) = true /\
  run_propagate fx (t_ml t - plen (t_back t) + 1) t0 false o' i0 i2 (t_s3 t) = Some (t_forw t, true, t_s4 t) /\
  final_checks i0 i1 i2 eL eR pL (paste (t_back t) (t_forw t) true (Some maxlength)) = ACC /\
  r = mkR true ACC (paste (t_back t) (t_forw t) true (Some maxlength))
          (mkG o' idx (plen (t_back t) - 1)) 1 (t_s4 t).

Lemma shoot_acc_inv fx i0 i1 i2 eL eR maxlength allowmax pL pR old old_ld s :
  r_status (shoot fx i0 i1 i2 eL eR maxlength allowmax pL pR old old_ld s) = ACC ->
  exists t, shoot_acc_facts fx i0 i1 i2 eL eR maxlength allowmax pL pR old old_ld s t
              (shoot fx i0 i1 i2 eL eR maxlength allowmax pL pR old old_ld s).
Proof.
  unfold shoot. intros Hacc.
  destruct (s_draws s) as [|u ds] eqn:Ed; [discriminate Hacc|].
  destruct (Nat.ltb_spec (plen old) 3) as [HL|HL]; [discriminate Hacc|].
  destruct (nth_error (pts old) (shooting_index u (plen old))) as [sp|] eqn:Esp; [|discriminate Hacc].
  rewrite kick_split in *. cbv beta iota in Hacc |- *.
  fold (shot_order s sp) in Hacc |- *.
  set (o' := shot_order s sp) in *.
  destruct ((i0 <=? o') && (o' <? i2)) eqn:Ekick; cbn [negb] in Hacc |- *; [|discriminate Hacc].
  fold (choose_maxlen old_ld allowmax (plen old) maxlength ds (kicks_rest s) s) in Hacc |- *.
  destruct (choose_maxlen old_ld allowmax (plen old) maxlength ds (kicks_rest s) s) as [[ml s2]|] eqn:Eml;
    [|discriminate Hacc].
  destruct (run_propagate fx (ml - 1) (torigin old + Z.of_nat (shooting_index u (plen old))) true o' i0 i2 s2)
    as [[[back okb] s3]|] eqn:Eb; [|discriminate Hacc].
  destruct okb; cbn [negb] in Hacc |- *;
    [|destruct (maxlength - 1 <=? plen back)%nat; discriminate Hacc].
  destruct (end_point back i0 i2) as [ep|] eqn:Eep; [|discriminate Hacc].
  destruct (in_sc pL pR (Some ep)) eqn:Esc; cbn [negb] in Hacc |- *; [|discriminate Hacc].
  destruct (run_propagate fx (ml - plen back + 1) (torigin old + Z.of_nat (shooting_index u (plen old))) false o' i0 i2 s3)
    as [[[forw okf] s4]|] eqn:Ef; [|discriminate Hacc].
  destruct okf; cbn [negb] in Hacc |- *;
    [|destruct (plen (paste back forw true (Some maxlength)) =? maxlength)%nat; discriminate Hacc].
  exists (mkT u ds sp ml s2 back s3 ep forw s4). unfold shoot_acc_facts. cbn [t_u t_ds t_sp t_ml t_s2 t_back t_s3 t_ep t_forw t_s4].
  fold o'.
  apply andb_true_iff in Ekick as [K1 K2]. apply Z.leb_le in K1. apply Z.ltb_lt in K2.
  assert (Hfc : final_checks i0 i1 i2 eL eR pL (paste back forw true (Some maxlength)) = ACC /\
                (let '(cst, cen, cmid) :=
                    match check_interfaces (paste back forw true (Some maxlength)) [i0; i1; i2] with
                    | Some r => (ci_start r, ci_end r, nth 1 (ci_cross r) false)
                    | None => (None, None, false)
                    end in
                  if negb pL && (is_SL cst || is_SL cen)
                  then mkR false ZEROL (paste back forw true (Some maxlength)) (mkG o' (shooting_index u (plen old)) (plen back - 1)) 1 s4
                  else if negb (eL && eR) && negb cmid
                       then mkR false NCR (paste back forw true (Some maxlength)) (mkG o' (shooting_index u (plen old)) (plen back - 1)) 1 s4
                       else mkR true ACC (paste back forw true (Some maxlength)) (mkG o' (shooting_index u (plen old)) (plen back - 1)) 1 s4) =
                mkR true ACC (paste back forw true (Some maxlength)) (mkG o' (shooting_index u (plen old)) (plen back - 1)) 1 s4).
  { unfold final_checks.
    destruct (match check_interfaces (paste back forw true (Some maxlength)) [i0; i1; i2] with
              | Some r => (ci_start r, ci_end r, nth 1 (ci_cross r) false)
              | None => (None, None, false)
              end) as [[cst cen] cmid].
    destruct (negb pL && (is_SL cst || is_SL cen)); [discriminate Hacc|].
    destruct (negb (eL && eR) && negb cmid); [discriminate Hacc|]. split; reflexivity. }
  destruct Hfc as [Hfc1 Hfc2].
  repeat (split; [first [assumption | reflexivity | lia]|]).
  exact Hfc2.
Qed.

Lemma choose_maxlen_spec old_ld allowmax L maxlength ds ks s ml s2 :
  choose_maxlen old_ld allowmax L maxlength ds ks s = Some (ml, s2) ->
  s_streams s2 = s_streams s /\ s_ncall s2 = s_ncall s /\ s_kicks s2 = ks /\ (ml <= maxlength)%nat /\
  (old_ld || allowmax = true -> ml = maxlength /\ s_draws s2 = ds) /\
  (old_ld || allowmax = false ->
     exists r ds', ds = r :: ds' /\ 0 < Qnum r /\ ml = draw_maxlen L r maxlength /\ s_draws s2 = ds').
Proof.
  unfold choose_maxlen. destruct (old_ld || allowmax).
  - intros H. injection H as <- <-. cbn. repeat split; auto; discriminate.
  - destruct ds as [|r ds']; [discriminate|]. destruct (Z.leb_spec (Qnum r) 0) as [Hr|Hr]; [discriminate|].
    intros H. injection H as <- <-. cbn. repeat split; auto; try discriminate.
    + unfold draw_maxlen. lia.
    + intros _. exists r, ds'. repeat split; auto.
Qed.

Lemma first_out_inside_head l r o os j :
  outb l r o = false -> first_out l r (o :: os) = Some j -> (1 <= j)%nat.
Proof. intros Ho. cbn. rewrite Ho. destruct (first_out l r os); cbn; [|discriminate]. intros H. injection H as <-. lia. Qed.

Record shoot_shape := mkSh { h_sb : list Z; h_sf : list Z; h_rest : list (list Z); h_jb : nat; h_jf : nat }.

(* what an accepted shooting move looks like, in terms of the inputs only *)
Definition shoot_acc_shape (fx : bool) (i0 i2 : Z) (maxlength : nat) (old : path) (s : src)
           (t : shoot_trace) (h : shoot_shape) (r : result) : Prop :=
  let idx := shooting_index (t_u t) (plen old) in
  let o' := shot_order s (t_sp t) in
  let t0 := torigin old + Z.of_nat idx in
  let n := s_ncall s in
  let B := mk_stream n true o' (h_sb h) in
  let F := mk_stream (S n) false o' (h_sf h) in
  let ml := t_ml t in
  s_streams s = h_sb h :: h_sf h :: h_rest h /\
  first_out i0 i2 (o' :: h_sb h) = Some (h_jb h) /\
  first_out i0 i2 (o' :: h_sf h) = Some (h_jf h) /\
  (1 <= h_jb h)%nat /\ (1 <= h_jf h)%nat /\
  (S (h_jb h) <= lim fx (ml - 1))%nat /\
  (S (h_jf h) <= lim fx (ml - S (h_jb h) + 1))%nat /\
  (ml <= maxlength)%nat /\
  t_back t = mkP (firstn (S (h_jb h)) B) (ml - 1) t0 /\
  t_forw t = mkP (firstn (S (h_jf h)) F) (ml - S (h_jb h) + 1) t0 /\
  pts (r_path r) = rev (firstn (S (h_jb h)) B) ++ tl (firstn (S (h_jf h)) F) /\
  plen (r_path r) = (S (h_jb h) + h_jf h)%nat /\
  maxlen (r_path r) = maxlength /\
  torigin (r_path r) = t0 - Z.of_nat (h_jb h) /\
  r_src r = mkS (s_draws (t_s2 t)) (kicks_rest s) (h_rest h) (S (S n)).

Lemma lim_le fx ml : (lim fx ml <= ml)%nat.
Proof. unfold lim. destruct fx; lia. Qed.

Lemma shoot_acc_struct fx i0 i1 i2 eL eR maxlength allowmax pL pR old old_ld s t r :
  shoot_acc_facts fx i0 i1 i2 eL eR maxlength allowmax pL pR old old_ld s t r ->
  exists h, shoot_acc_shape fx i0 i2 maxlength old s t h r.
Proof.
  unfold shoot_acc_facts.
  set (idx := shooting_index (t_u t) (plen old)). set (o' := shot_order s (t_sp t)).
  set (t0 := torigin old + Z.of_nat idx).
  intros (Hd & HL & Hsp & Hk & Hml & Hb & Hep & Hsc & Hf & Hfc & Hr).
  apply choose_maxlen_spec in Hml as (Hst & Hnc & Hks & Hmle & _ & _).
  assert (Hin : outb i0 i2 o' = false) by (apply outb_false; lia).
  (* backward *)
  rewrite run_propagate_eq in Hb. rewrite Hst, Hnc in Hb.
  destruct (s_streams s) as [|sb rest1] eqn:Es; [discriminate|].
  destruct (Nat.eqb_spec (t_ml t - 1) 0) as [E0|E0]; [discriminate|].
  destruct (prop_empty fx (t_ml t - 1) t0 (mk_stream (s_ncall s) true o' sb) i0 i2) as [[pb okb]|] eqn:Epb;
    [|discriminate].
  injection Hb as Hb1 Hb2 Hb3. subst okb.
  apply prop_empty_success in Epb as (jb & Hjb & Hjbl & Hpb). rewrite mk_stream_orders in Hjb.
  (* forward *)
  rewrite run_propagate_eq in Hf. rewrite <- Hb3 in Hf. cbn [s_streams s_ncall s_draws s_kicks] in Hf.
  destruct rest1 as [|sf rest] ; [discriminate|].
  assert (Hplb : plen (t_back t) = S jb).
  { rewrite <- Hb1, Hpb. unfold plen. cbn [pts]. rewrite firstn_length, mk_stream_length.
    apply first_out_lt in Hjb. cbn [length] in Hjb. lia. }
  rewrite Hplb in Hf.
  destruct (Nat.eqb_spec (t_ml t - S jb + 1) 0) as [E1|E1]; [discriminate|].
  destruct (prop_empty fx (t_ml t - S jb + 1) t0 (mk_stream (S (s_ncall s)) false o' sf) i0 i2) as [[pf okf]|] eqn:Epf;
    [|discriminate].
  injection Hf as Hf1 Hf2 Hf3. subst okf.
  apply prop_empty_success in Epf as (jf & Hjf & Hjfl & Hpf). rewrite mk_stream_orders in Hjf.
  exists (mkSh sb sf rest jb jf). unfold shoot_acc_shape. cbn [h_sb h_sf h_rest h_jb h_jf].
  fold idx o' t0.
  assert (Hplf : plen (t_forw t) = S jf).
  { rewrite <- Hf1, Hpf. unfold plen. cbn [pts]. rewrite firstn_length, mk_stream_length.
    apply first_out_lt in Hjf. cbn [length] in Hjf. lia. }
  pose proof (lim_le fx (t_ml t - 1)) as L1. pose proof (lim_le fx (t_ml t - S jb + 1)) as L2.
  assert (Hpts : pts (r_path r) = rev (firstn (S jb) (mk_stream (s_ncall s) true o' sb)) ++
                                  tl (firstn (S jf) (mk_stream (S (s_ncall s)) false o' sf))).
  { rewrite Hr. cbn [r_path]. rewrite paste_untruncated.
    - unfold forw_part. rewrite <- Hb1, <- Hf1, Hpb, Hpf. reflexivity.
    - rewrite forw_part_length, Hplb, Hplf. lia. }
  split; [exact Es|]. split; [exact Hjb|]. split; [exact Hjf|].
  split; [eapply first_out_inside_head; eauto|]. split; [eapply first_out_inside_head; eauto|].
  split; [exact Hjbl|]. split; [exact Hjfl|]. split; [exact Hmle|].
  split; [now rewrite <- Hb1|]. split; [now rewrite <- Hf1|]. split; [exact Hpts|].
  split.
  { unfold plen. rewrite Hpts, app_length, rev_length.
    assert (A : length (firstn (S jb) (mk_stream (s_ncall s) true o' sb)) = S jb).
    { rewrite firstn_length, mk_stream_length. apply first_out_lt in Hjb. cbn [length] in Hjb. lia. }
    assert (B : length (tl (firstn (S jf) (mk_stream (S (s_ncall s)) false o' sf))) = jf).
    { cbn [firstn mk_stream number_from tl]. rewrite firstn_length, number_from_length.
      apply first_out_lt in Hjf. cbn [length] in Hjf. lia. }
    lia. }
  rewrite Hr. cbn [r_path r_src].
  destruct (paste_maxlen_torigin (t_back t) (t_forw t) true maxlength) as [M1 M2].
  split; [exact M1|]. split.
  { rewrite M2, Hplb. rewrite <- Hb1, Hpb. cbn [torigin]. lia. }
  rewrite <- Hf3. rewrite Hks. reflexivity.
Qed.
