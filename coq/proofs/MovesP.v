(* Proofs about the moves model (property C09). *)
From Coq Require Import ZArith QArith List Bool Lia.
Import ListNotations.
From Inf Require Import base.ListX model.PathM model.EngineM model.WeightM spec.WeightS model.MovesM proofs.PathP proofs.WeightP.
Open Scope Z_scope.

(* ================================================================== the stop rule *)

(* fx = false is literally the rule modelled in EngineM (the code as it is) *)
Lemma add_to_path_g_false p f l r : add_to_path_g false p f l r = add_to_path p f l r.
Proof.
  unfold add_to_path_g, add_to_path. destruct (append p f) as [p1 add].
  destruct (rev (pts p1)) as [|f0 ?]; [reflexivity|].
  destruct (ford f0 <? l); [now rewrite andb_true_r|].
  destruct (r <? ford f0); now rewrite andb_true_r.
Qed.

Lemma propagate_loop_g_false s : forall p l r n,
  propagate_loop_g false p s l r n = propagate_loop p s l r n.
Proof.
  induction s as [|f s IH]; intros p l r n; cbn; [reflexivity|].
  rewrite add_to_path_g_false. destruct (add_to_path p f l r) as [[[[p1 su] st] ad]|]; [|reflexivity].
  destruct st; [reflexivity|apply IH].
Qed.

Definition outb (l r : Z) (o : Z) : bool := (o <? l) || (r <? o).

Lemma outb_true l r o : outb l r o = true <-> (o < l \/ r < o).
Proof. unfold outb. rewrite orb_true_iff, !Z.ltb_lt. tauto. Qed.

Lemma outb_false l r o : outb l r o = false <-> (l <= o <= r).
Proof. unfold outb. rewrite orb_false_iff, !Z.ltb_ge. tauto. Qed.

Definition app_path (p : path) (fs : list frame) : path := mkP (pts p ++ fs) (maxlen p) (torigin p).

Lemma add_to_path_g_room fx p f l r :
  (plen p < maxlen p)%nat ->
  add_to_path_g fx p f l r =
  Some (app_path p [f],
        outb l r (ford f) && negb ((S (plen p) =? maxlen p)%nat && negb fx),
        outb l r (ford f) || (S (plen p) =? maxlen p)%nat,
        true).
Proof.
  intros Hlt. unfold add_to_path_g, append.
  destruct (Nat.ltb_spec (plen p) (maxlen p)) as [_|H]; [|lia].
  cbn [pts]. rewrite rev_app_distr. cbn [rev app].
  unfold plen at 1. cbn [pts maxlen]. rewrite app_length. cbn [length].
  replace (length (pts p) + 1)%nat with (S (plen p)) by (unfold plen; lia).
  unfold outb, app_path.
  destruct (ford f <? l); cbn [orb].
  - destruct (S (plen p) =? maxlen p)%nat, fx; reflexivity.
  - destruct (r <? ford f); destruct (S (plen p) =? maxlen p)%nat, fx; reflexivity.
Qed.

(* index of the first frame that is outside [l, r] *)
Fixpoint first_out (l r : Z) (os : list Z) : option nat :=
  match os with
  | [] => None
  | o :: rest => if outb l r o then Some 0%nat else option_map S (first_out l r rest)
  end.

Lemma first_out_spec l r os j :
  first_out l r os = Some j <->
  (exists o, nth_error os j = Some o /\ outb l r o = true) /\
  (forall k o, (k < j)%nat -> nth_error os k = Some o -> outb l r o = false).
Proof.
  revert j; induction os as [|a os IH]; intros j; cbn [first_out].
  - split; [discriminate|]. intros ((o & H & _) & _). destruct j; discriminate.
  - destruct (outb l r a) eqn:Ea.
    + split.
      * intros H. injection H as <-. split; [exists a; auto|]. intros k o Hk. lia.
      * intros ((o & Ho & Hout) & Hall). destruct j as [|j]; [reflexivity|].
        specialize (Hall 0%nat a ltac:(lia) eq_refl). congruence.
    + destruct (first_out l r os) as [j'|] eqn:Ef; cbn [option_map].
      * split.
        -- intros H. injection H as <-. destruct (proj1 (IH j') eq_refl) as ((o & Ho & Hout) & Hall).
           split; [exists o; auto|]. intros [|k] o' Hk Hn; cbn in Hn; [congruence|].
           apply (Hall k); [lia|exact Hn].
        -- intros ((o & Ho & Hout) & Hall). destruct j as [|j]; [cbn in Ho; congruence|].
           f_equal. cbn in Ho.
           assert (E : Some j' = Some j); [|congruence]. apply IH.
           split; [exists o; auto|]. intros k o' Hk Hn. apply (Hall (S k)); [lia|exact Hn].
      * split; [discriminate|]. intros ((o & Ho & Hout) & Hall).
        destruct j as [|j]; [cbn in Ho; congruence|]. cbn in Ho.
        assert (E : None = Some j); [|discriminate]. apply IH.
        split; [exists o; auto|]. intros k o' Hk Hn. apply (Hall (S k)); [lia|exact Hn].
Qed.

Lemma first_out_lt l r os j : first_out l r os = Some j -> (j < length os)%nat.
Proof. intros H. apply first_out_spec in H as ((o & Ho & _) & _). apply nth_error_Some. congruence. Qed.

(* searching a prefix finds the same index, or nothing *)
Lemma first_out_firstn l r os : forall m,
  first_out l r (firstn m os) =
  match first_out l r os with
  | Some j => if (j <? m)%nat then Some j else None
  | None => None
  end.
Proof.
  induction os as [|a os IH]; intros m; [now rewrite firstn_nil|].
  destruct m as [|m]; cbn [firstn first_out].
  - destruct (outb l r a); [reflexivity|]. now destruct (first_out l r os).
  - destruct (outb l r a); [reflexivity|]. rewrite IH.
    destruct (first_out l r os) as [j|]; cbn [option_map]; [|reflexivity].
    change (S j <? S m)%nat with (j <? m)%nat. now destruct (j <? m)%nat.
Qed.

(* what one propagate call returns, as a function of the first outside frame within reach *)
Definition prop_expect (fx : bool) (p : path) (s : list frame) (l r : Z) (n : nat)
  : option (path * bool * nat) :=
  let room := (maxlen p - plen p)%nat in
  match first_out l r (map ford (firstn room s)) with
  | Some j =>
      if fx || (S j <? room)%nat then Some (app_path p (firstn (S j) s), true, (n + S j)%nat)
      else Some (app_path p (firstn room s), false, (n + room)%nat)
  | None =>
      if (room <=? length s)%nat then Some (app_path p (firstn room s), false, (n + room)%nat) else None
  end.

Lemma app_path_app p a b : app_path (app_path p a) b = app_path p (a ++ b).
Proof. unfold app_path. cbn. now rewrite app_assoc. Qed.

Ltac solve_eq := cbn [Nat.ltb Nat.leb firstn]; repeat (f_equal; try lia).

Lemma propagate_loop_g_char fx l r : forall s p n,
  (plen p < maxlen p)%nat ->
  match propagate_loop_g fx p s l r n with
  | PR p' ok c => prop_expect fx p s l r n = Some (p', ok, c)
  | PRExhausted _ => prop_expect fx p s l r n = None
  | PRError => False
  end.
Proof.
  induction s as [|f s IH]; intros p n Hlt.
  - cbn. unfold prop_expect. rewrite firstn_nil. cbn.
    destruct (Nat.leb_spec (maxlen p - plen p) 0); [lia|reflexivity].
  - cbn [propagate_loop_g]. rewrite add_to_path_g_room by exact Hlt.
    unfold prop_expect.
    destruct (maxlen p - plen p)%nat as [|room'] eqn:Er; [lia|].
    cbn [firstn map first_out].
    destruct (outb l r (ford f)) eqn:Eo; cbn [orb andb].
    + (* crossing frame *)
      destruct (Nat.eqb_spec (S (plen p)) (maxlen p)) as [Ef|Ef].
      * assert (room' = 0)%nat by lia. subst room'.
        cbn [negb andb]. destruct fx; cbn [negb orb]; cbn [firstn]; solve_eq.
      * cbn [negb andb].
        destruct (Nat.ltb_spec 1 (S room')); [|lia]. rewrite orb_true_r.
        cbn [firstn]. solve_eq.
    + destruct (Nat.eqb_spec (S (plen p)) (maxlen p)) as [Ef|Ef].
      * (* limit reached on an inside frame *)
        assert (room' = 0)%nat by lia. subst room'. cbn [firstn map first_out option_map].
        cbn [length Nat.leb]. cbn [firstn]. solve_eq.
      * (* continue *)
        specialize (IH (app_path p [f]) (S n)).
        assert (Hlt' : (plen (app_path p [f]) < maxlen (app_path p [f]))%nat).
        { unfold plen, app_path. cbn. rewrite app_length. cbn. unfold plen in *. lia. }
        specialize (IH Hlt').
        assert (Eroom : (maxlen (app_path p [f]) - plen (app_path p [f]))%nat = room').
        { unfold plen, app_path. cbn. rewrite app_length. cbn. unfold plen in *. lia. }
        unfold prop_expect in IH. rewrite Eroom in IH.
        destruct (propagate_loop_g fx (app_path p [f]) s l r (S n)) as [p' ok c|p'|];
          [| |exact IH].
        -- destruct (first_out l r (map ford (firstn room' s))) as [j|]; cbn [option_map].
           ++ change (S (S j) <? S room')%nat with (S j <? room')%nat.
              destruct (fx || (S j <? room')%nat).
              ** rewrite app_path_app in IH. cbn [app firstn] in *.
                 rewrite <- IH. solve_eq.
              ** rewrite app_path_app in IH. cbn [app firstn] in *.
                 rewrite <- IH. solve_eq.
           ++ cbn [length]. change (S room' <=? S (length s))%nat with (room' <=? length s)%nat.
              destruct (room' <=? length s)%nat; [|discriminate].
              rewrite app_path_app in IH. cbn [app firstn] in *. rewrite <- IH. solve_eq.
        -- destruct (first_out l r (map ford (firstn room' s))) as [j|]; cbn [option_map].
           ++ change (S (S j) <? S room')%nat with (S j <? room')%nat.
              destruct (fx || (S j <? room')%nat); discriminate.
           ++ cbn [length]. change (S room' <=? S (length s))%nat with (room' <=? length s)%nat.
              destruct (room' <=? length s)%nat; [discriminate|reflexivity].
Qed.

(* ================================================================== one propagate call *)

Lemma map_ford_number_from n rv os : forall k, map ford (number_from n k rv os) = os.
Proof. induction os as [|o os IH]; intros k; cbn; [reflexivity|]. now rewrite IH. Qed.

Lemma number_from_length n rv os : forall k, length (number_from n k rv os) = length os.
Proof. induction os as [|o os IH]; intros k; cbn; [reflexivity|]. now rewrite IH. Qed.

Lemma number_from_frev n rv os : forall k f, In f (number_from n k rv os) -> frev f = rv.
Proof.
  induction os as [|o os IH]; intros k f H; cbn in H; [tauto|].
  destruct H as [<-|H]; [reflexivity|eauto].
Qed.

Lemma mk_stream_orders n rv o0 os : map ford (mk_stream n rv o0 os) = o0 :: os.
Proof. unfold mk_stream. apply map_ford_number_from. Qed.

Lemma mk_stream_length n rv o0 os : length (mk_stream n rv o0 os) = S (length os).
Proof. unfold mk_stream. now rewrite number_from_length. Qed.

(* result of propagate on an empty path with limit ml, offered the frames F *)
Definition prop_empty (fx : bool) (ml : nat) (t0 : Z) (F : list frame) (l r : Z) : option (path * bool) :=
  match first_out l r (map ford F) with
  | Some j =>
      if (j <? ml)%nat then
        if fx || (S j <? ml)%nat then Some (mkP (firstn (S j) F) ml t0, true)
        else Some (mkP (firstn ml F) ml t0, false)
      else Some (mkP (firstn ml F) ml t0, false)
  | None => if (ml <=? length F)%nat then Some (mkP (firstn ml F) ml t0, false) else None
  end.

Lemma run_propagate_eq fx ml t0 rv o0 l r s :
  run_propagate fx ml t0 rv o0 l r s =
  match s_streams s with
  | [] => None
  | os :: rest =>
      if (ml =? 0)%nat then None else
      match prop_empty fx ml t0 (mk_stream (s_ncall s) rv o0 os) l r with
      | Some (p, ok) => Some (p, ok, mkS (s_draws s) (s_kicks s) rest (S (s_ncall s)))
      | None => None
      end
  end.
Proof.
  unfold run_propagate. destruct (s_streams s) as [|os rest]; [reflexivity|].
  set (F := mk_stream (s_ncall s) rv o0 os).
  destruct (Nat.eqb_spec ml 0) as [->|Hml].
  - (* limit 0: the first append fails and phasepoints[-1] raises *)
    unfold F, mk_stream, propagate_g. cbn [number_from propagate_loop_g].
    unfold add_to_path_g, append. cbn. reflexivity.
  - unfold propagate_g.
    pose proof (propagate_loop_g_char fx l r F (empty_path ml t0) 0%nat) as H.
    assert (Hlt : (plen (empty_path ml t0) < maxlen (empty_path ml t0))%nat) by (cbn; lia).
    specialize (H Hlt). unfold prop_expect in H. cbn [empty_path maxlen plen pts length] in H.
    rewrite Nat.sub_0_r in H. rewrite <- firstn_map, first_out_firstn in H.
    unfold prop_empty.
    assert (Hmk : forall k, app_path (empty_path ml t0) (firstn k F) = mkP (firstn k F) ml t0) by reflexivity.
    destruct (propagate_loop_g fx (empty_path ml t0) F l r 0) as [p' ok c|p'|]; [| |contradiction].
    + destruct (first_out l r (map ford F)) as [j|].
      * destruct (j <? ml)%nat.
        -- destruct (fx || (S j <? ml)%nat); rewrite Hmk in H; inversion H; subst; reflexivity.
        -- assert (Hlen : (ml <=? length F)%nat = true).
           { destruct (ml <=? length F)%nat; [reflexivity|discriminate]. }
           rewrite Hlen in H. rewrite Hmk in H. inversion H; subst. reflexivity.
      * destruct (ml <=? length F)%nat; [|discriminate].
        rewrite Hmk in H. inversion H; subst. reflexivity.
    + destruct (first_out l r (map ford F)) as [j|] eqn:Ef.
      * destruct (Nat.ltb_spec j ml).
        -- destruct (fx || (S j <? ml)%nat); discriminate.
        -- apply first_out_lt in Ef. rewrite map_length in Ef.
           destruct (Nat.leb_spec ml (length F)); [discriminate|lia].
      * destruct (ml <=? length F)%nat; [discriminate|reflexivity].
Qed.

(* the limit a crossing frame may sit on: ml with the repaired rule, ml - 1 with the current one *)
Definition lim (fx : bool) (ml : nat) : nat := if fx then ml else (ml - 1)%nat.

Lemma prop_empty_success fx ml t0 F l r p :
  prop_empty fx ml t0 F l r = Some (p, true) ->
  exists j, first_out l r (map ford F) = Some j /\ (S j <= lim fx ml)%nat /\ p = mkP (firstn (S j) F) ml t0.
Proof.
  unfold prop_empty, lim. destruct (first_out l r (map ford F)) as [j|].
  - destruct (Nat.ltb_spec j ml) as [Hj|Hj].
    + destruct fx; cbn [orb].
      * intros H. injection H as <-. exists j. repeat split; lia.
      * destruct (Nat.ltb_spec (S j) ml) as [Hj'|Hj']; intros H; [|discriminate].
        injection H as <-. exists j. repeat split; lia.
    + discriminate.
  - destruct (ml <=? length F)%nat; discriminate.
Qed.

Lemma prop_empty_complete fx ml t0 F l r j :
  first_out l r (map ford F) = Some j -> (1 <= ml)%nat ->
  prop_empty fx ml t0 F l r =
  if (S j <=? lim fx ml)%nat then Some (mkP (firstn (S j) F) ml t0, true)
  else Some (mkP (firstn ml F) ml t0, false).
Proof.
  intros Hf Hml. unfold prop_empty, lim. rewrite Hf.
  destruct fx; cbn [orb].
  - destruct (Nat.ltb_spec j ml) as [A|A], (Nat.leb_spec (S j) ml) as [B|B]; try lia; reflexivity.
  - destruct (Nat.ltb_spec j ml) as [A|A], (Nat.ltb_spec (S j) ml) as [B|B],
             (Nat.leb_spec (S j) (ml - 1)) as [C|C]; try lia; reflexivity.
Qed.

Lemma prop_empty_fail_len fx ml t0 F l r p :
  prop_empty fx ml t0 F l r = Some (p, false) -> (1 <= ml)%nat -> plen p = ml /\ maxlen p = ml.
Proof.
  unfold prop_empty. intros H Hml.
  assert (G : (ml <= length F)%nat -> plen (mkP (firstn ml F) ml t0) = ml).
  { intros Hl. unfold plen. cbn. rewrite firstn_length. lia. }
  destruct (first_out l r (map ford F)) as [j|] eqn:Ef.
  - apply first_out_lt in Ef. rewrite map_length in Ef.
    destruct (Nat.ltb_spec j ml) as [A|A].
    + destruct (fx || (S j <? ml)%nat) eqn:Eb; [discriminate|]. apply orb_false_iff in Eb as [_ Eb].
      apply Nat.ltb_ge in Eb. injection H as <-. split; [apply G; lia|reflexivity].
    + injection H as <-. split; [apply G; lia|reflexivity].
  - destruct (Nat.leb_spec ml (length F)) as [A|A]; [|discriminate]. injection H as <-. split; [apply G; lia|reflexivity].
Qed.

(* ================================================================== shoot: inversion of ACC *)

Definition kick_of (s : src) : option Z := match s_kicks s with [] => None | k :: _ => k end.
Definition kicks_rest (s : src) : list (option Z) := tl (s_kicks s).

Lemma kick_split s :
  match s_kicks s with [] => (@None Z, @nil (option Z)) | k :: r => (k, r) end = (kick_of s, kicks_rest s).
Proof. unfold kick_of, kicks_rest. now destruct (s_kicks s). Qed.

(* the order parameter of the shooting point after modify_velocities *)
Definition shot_order (s : src) (sp : frame) : Z :=
  match kick_of s with Some o => o | None => ford sp end.

Definition choose_maxlen (old_ld allowmax : bool) (L maxlength : nat) (ds : list Q)
           (ks : list (option Z)) (s : src) : option (nat * src) :=
  if old_ld || allowmax then Some (maxlength, mkS ds ks (s_streams s) (s_ncall s))
  else match ds with
       | [] => None
       | r :: ds' =>
           if Qnum r <=? 0 then None
           else Some (draw_maxlen L r maxlength, mkS ds' ks (s_streams s) (s_ncall s))
       end.

(* the three tests after a successful forward propagation *)
Definition final_checks (i0 i1 i2 : Z) (eL eR pL : bool) (trial : path) : status :=
  let '(cst, cen, cmid) :=
    match check_interfaces trial [i0; i1; i2] with
    | Some r => (ci_start r, ci_end r, nth 1 (ci_cross r) false)
    | None => (None, None, false)
    end in
  if negb pL && (is_SL cst || is_SL cen) then ZEROL
  else if negb (eL && eR) && negb cmid then NCR else ACC.

Record shoot_trace := mkT {
  t_u : Q; t_ds : list Q; t_sp : frame; t_ml : nat; t_s2 : src;
  t_back : path; t_s3 : src; t_ep : side; t_forw : path; t_s4 : src
}.

Definition shoot_acc_facts (fx : bool) (i0 i1 i2 : Z) (eL eR : bool) (maxlength : nat) (allowmax : bool)
           (pL pR : bool) (old : path) (old_ld : bool) (s : src) (t : shoot_trace) (r : result) : Prop :=
  let idx := shooting_index (t_u t) (plen old) in
  let o' := shot_order s (t_sp t) in
  let t0 := torigin old + Z.of_nat idx in
  s_draws s = t_u t :: t_ds t /\
  (3 <= plen old)%nat /\
  nth_error (pts old) idx = Some (t_sp t) /\
  i0 <= o' < i2 /\
  choose_maxlen old_ld allowmax (plen old) maxlength (t_ds t) (kicks_rest s) s = Some (t_ml t, t_s2 t) /\
  run_propagate fx (t_ml t - 1) t0 true o' i0 i2 (t_s2 t) = Some (t_back t, true, t_s3 t) /\
  end_point (t_back t) i0 i2 = Some (t_ep t) /\
  in_sc pL pR (Some (t_ep t)) = true /\
  run_propagate fx (t_ml t - plen (t_back t) + 1) t0 false o' i0 i2 (t_s3 t) = Some (t_forw t, true, t_s4 t) /\
  final_checks i0 i1 i2 eL eR pL (paste (t_back t) (t_forw t) true (Some maxlength)) = ACC /\
  r = mkR true ACC (paste (t_back t) (t_forw t) true (Some maxlength))
          (mkG o' idx (plen (t_back t) - 1)) 1 (t_s4 t).

Lemma shoot_acc_inv fx i0 i1 i2 eL eR maxlength allowmax pL pR old old_ld s :
  r_status (shoot fx i0 i1 i2 eL eR maxlength allowmax pL pR old old_ld s) = ACC ->
  exists t, shoot_acc_facts fx i0 i1 i2 eL eR maxlength allowmax pL pR old old_ld s t
              (shoot fx i0 i1 i2 eL eR maxlength allowmax pL pR old old_ld s).
Proof.
  unfold shoot. intros Hacc.
  destruct (s_draws s) as [|u ds] eqn:Ed; [discriminate Hacc|].
  destruct (Nat.ltb_spec (plen old) 3) as [HL|HL]; [discriminate Hacc|].
  destruct (nth_error (pts old) (shooting_index u (plen old))) as [sp|] eqn:Esp; [|discriminate Hacc].
  rewrite kick_split in *. cbv beta iota in Hacc |- *.
  fold (shot_order s sp) in Hacc |- *.
  set (o' := shot_order s sp) in *.
  destruct ((i0 <=? o') && (o' <? i2)) eqn:Ekick; cbn [negb] in Hacc |- *; [|discriminate Hacc].
  fold (choose_maxlen old_ld allowmax (plen old) maxlength ds (kicks_rest s) s) in Hacc |- *.
  destruct (choose_maxlen old_ld allowmax (plen old) maxlength ds (kicks_rest s) s) as [[ml s2]|] eqn:Eml;
    [|discriminate Hacc].
  destruct (run_propagate fx (ml - 1) (torigin old + Z.of_nat (shooting_index u (plen old))) true o' i0 i2 s2)
    as [[[back okb] s3]|] eqn:Eb; [|discriminate Hacc].
  destruct okb; cbn [negb] in Hacc |- *;
    [|destruct (maxlength - 1 <=? plen back)%nat; discriminate Hacc].
  destruct (end_point back i0 i2) as [ep|] eqn:Eep; [|discriminate Hacc].
  destruct (in_sc pL pR (Some ep)) eqn:Esc; cbn [negb] in Hacc |- *; [|discriminate Hacc].
  destruct (run_propagate fx (ml - plen back + 1) (torigin old + Z.of_nat (shooting_index u (plen old))) false o' i0 i2 s3)
    as [[[forw okf] s4]|] eqn:Ef; [|discriminate Hacc].
  destruct okf; cbn [negb] in Hacc |- *;
    [|destruct (plen (paste back forw true (Some maxlength)) =? maxlength)%nat; discriminate Hacc].
  exists (mkT u ds sp ml s2 back s3 ep forw s4). unfold shoot_acc_facts. cbn [t_u t_ds t_sp t_ml t_s2 t_back t_s3 t_ep t_forw t_s4].
  fold o'.
  apply andb_true_iff in Ekick as [K1 K2]. apply Z.leb_le in K1. apply Z.ltb_lt in K2.
  assert (Hfc : final_checks i0 i1 i2 eL eR pL (paste back forw true (Some maxlength)) = ACC /\
                (let '(cst, cen, cmid) :=
                    match check_interfaces (paste back forw true (Some maxlength)) [i0; i1; i2] with
                    | Some r => (ci_start r, ci_end r, nth 1 (ci_cross r) false)
                    | None => (None, None, false)
                    end in
                  if negb pL && (is_SL cst || is_SL cen)
                  then mkR false ZEROL (paste back forw true (Some maxlength)) (mkG o' (shooting_index u (plen old)) (plen back - 1)) 1 s4
                  else if negb (eL && eR) && negb cmid
                       then mkR false NCR (paste back forw true (Some maxlength)) (mkG o' (shooting_index u (plen old)) (plen back - 1)) 1 s4
                       else mkR true ACC (paste back forw true (Some maxlength)) (mkG o' (shooting_index u (plen old)) (plen back - 1)) 1 s4) =
                mkR true ACC (paste back forw true (Some maxlength)) (mkG o' (shooting_index u (plen old)) (plen back - 1)) 1 s4).
  { unfold final_checks.
    destruct (match check_interfaces (paste back forw true (Some maxlength)) [i0; i1; i2] with
              | Some r => (ci_start r, ci_end r, nth 1 (ci_cross r) false)
              | None => (None, None, false)
              end) as [[cst cen] cmid].
    destruct (negb pL && (is_SL cst || is_SL cen)); [discriminate Hacc|].
    destruct (negb (eL && eR) && negb cmid); [discriminate Hacc|]. split; reflexivity. }
  destruct Hfc as [Hfc1 Hfc2].
  repeat (split; [first [assumption | reflexivity | lia]|]).
  exact Hfc2.
Qed.

Lemma choose_maxlen_spec old_ld allowmax L maxlength ds ks s ml s2 :
  choose_maxlen old_ld allowmax L maxlength ds ks s = Some (ml, s2) ->
  s_streams s2 = s_streams s /\ s_ncall s2 = s_ncall s /\ s_kicks s2 = ks /\ (ml <= maxlength)%nat /\
  (old_ld || allowmax = true -> ml = maxlength /\ s_draws s2 = ds) /\
  (old_ld || allowmax = false ->
     exists r ds', ds = r :: ds' /\ 0 < Qnum r /\ ml = draw_maxlen L r maxlength /\ s_draws s2 = ds').
Proof.
  unfold choose_maxlen. destruct (old_ld || allowmax).
  - intros H. injection H as <- <-. cbn. repeat split; auto; discriminate.
  - destruct ds as [|r ds']; [discriminate|]. destruct (Z.leb_spec (Qnum r) 0) as [Hr|Hr]; [discriminate|].
    intros H. injection H as <- <-. cbn. repeat split; auto; try discriminate.
    + unfold draw_maxlen. lia.
    + intros _. exists r, ds'. repeat split; auto.
Qed.

Lemma first_out_inside_head l r o os j :
  outb l r o = false -> first_out l r (o :: os) = Some j -> (1 <= j)%nat.
Proof. intros Ho. cbn. rewrite Ho. destruct (first_out l r os); cbn; [|discriminate]. intros H. injection H as <-. lia. Qed.

Record shoot_shape := mkSh { h_sb : list Z; h_sf : list Z; h_rest : list (list Z); h_jb : nat; h_jf : nat }.

(* what an accepted shooting move looks like, in terms of the inputs only *)
Definition shoot_acc_shape (fx : bool) (i0 i2 : Z) (maxlength : nat) (old : path) (s : src)
           (t : shoot_trace) (h : shoot_shape) (r : result) : Prop :=
  let idx := shooting_index (t_u t) (plen old) in
  let o' := shot_order s (t_sp t) in
  let t0 := torigin old + Z.of_nat idx in
  let n := s_ncall s in
  let B := mk_stream n true o' (h_sb h) in
  let F := mk_stream (S n) false o' (h_sf h) in
  let ml := t_ml t in
  s_streams s = h_sb h :: h_sf h :: h_rest h /\
  first_out i0 i2 (o' :: h_sb h) = Some (h_jb h) /\
  first_out i0 i2 (o' :: h_sf h) = Some (h_jf h) /\
  (1 <= h_jb h)%nat /\ (1 <= h_jf h)%nat /\
  (S (h_jb h) <= lim fx (ml - 1))%nat /\
  (S (h_jf h) <= lim fx (ml - S (h_jb h) + 1))%nat /\
  (ml <= maxlength)%nat /\
  t_back t = mkP (firstn (S (h_jb h)) B) (ml - 1) t0 /\
  t_forw t = mkP (firstn (S (h_jf h)) F) (ml - S (h_jb h) + 1) t0 /\
  pts (r_path r) = rev (firstn (S (h_jb h)) B) ++ tl (firstn (S (h_jf h)) F) /\
  plen (r_path r) = (S (h_jb h) + h_jf h)%nat /\
  maxlen (r_path r) = maxlength /\
  torigin (r_path r) = t0 - Z.of_nat (h_jb h) /\
  r_src r = mkS (s_draws (t_s2 t)) (kicks_rest s) (h_rest h) (S (S n)).

Lemma lim_le fx ml : (lim fx ml <= ml)%nat.
Proof. unfold lim. destruct fx; lia. Qed.

Lemma shoot_acc_struct fx i0 i1 i2 eL eR maxlength allowmax pL pR old old_ld s t r :
  shoot_acc_facts fx i0 i1 i2 eL eR maxlength allowmax pL pR old old_ld s t r ->
  exists h, shoot_acc_shape fx i0 i2 maxlength old s t h r.
Proof.
  unfold shoot_acc_facts.
  set (idx := shooting_index (t_u t) (plen old)). set (o' := shot_order s (t_sp t)).
  set (t0 := torigin old + Z.of_nat idx).
  intros (Hd & HL & Hsp & Hk & Hml & Hb & Hep & Hsc & Hf & Hfc & Hr).
  apply choose_maxlen_spec in Hml as (Hst & Hnc & Hks & Hmle & _ & _).
  assert (Hin : outb i0 i2 o' = false) by (apply outb_false; lia).
  (* backward *)
  rewrite run_propagate_eq in Hb. rewrite Hst, Hnc in Hb.
  destruct (s_streams s) as [|sb rest1] eqn:Es; [discriminate|].
  destruct (Nat.eqb_spec (t_ml t - 1) 0) as [E0|E0]; [discriminate|].
  destruct (prop_empty fx (t_ml t - 1) t0 (mk_stream (s_ncall s) true o' sb) i0 i2) as [[pb okb]|] eqn:Epb;
    [|discriminate].
  injection Hb as Hb1 Hb2 Hb3. subst okb.
  apply prop_empty_success in Epb as (jb & Hjb & Hjbl & Hpb). rewrite mk_stream_orders in Hjb.
  (* forward *)
  rewrite run_propagate_eq in Hf. rewrite <- Hb3 in Hf. cbn [s_streams s_ncall s_draws s_kicks] in Hf.
  destruct rest1 as [|sf rest] ; [discriminate|].
  assert (Hplb : plen (t_back t) = S jb).
  { rewrite <- Hb1, Hpb. unfold plen. cbn [pts]. rewrite firstn_length, mk_stream_length.
    apply first_out_lt in Hjb. cbn [length] in Hjb. lia. }
  rewrite Hplb in Hf.
  destruct (Nat.eqb_spec (t_ml t - S jb + 1) 0) as [E1|E1]; [discriminate|].
  destruct (prop_empty fx (t_ml t - S jb + 1) t0 (mk_stream (S (s_ncall s)) false o' sf) i0 i2) as [[pf okf]|] eqn:Epf;
    [|discriminate].
  injection Hf as Hf1 Hf2 Hf3. subst okf.
  apply prop_empty_success in Epf as (jf & Hjf & Hjfl & Hpf). rewrite mk_stream_orders in Hjf.
  exists (mkSh sb sf rest jb jf). unfold shoot_acc_shape. cbn [h_sb h_sf h_rest h_jb h_jf].
  fold idx o' t0.
  assert (Hplf : plen (t_forw t) = S jf).
  { rewrite <- Hf1, Hpf. unfold plen. cbn [pts]. rewrite firstn_length, mk_stream_length.
    apply first_out_lt in Hjf. cbn [length] in Hjf. lia. }
  pose proof (lim_le fx (t_ml t - 1)) as L1. pose proof (lim_le fx (t_ml t - S jb + 1)) as L2.
  assert (Hpts : pts (r_path r) = rev (firstn (S jb) (mk_stream (s_ncall s) true o' sb)) ++
                                  tl (firstn (S jf) (mk_stream (S (s_ncall s)) false o' sf))).
  { rewrite Hr. cbn [r_path]. rewrite paste_untruncated.
    - unfold forw_part. rewrite <- Hb1, <- Hf1, Hpb, Hpf. reflexivity.
    - rewrite forw_part_length, Hplb, Hplf. lia. }
  split; [exact Es|]. split; [exact Hjb|]. split; [exact Hjf|].
  split; [eapply first_out_inside_head; eauto|]. split; [eapply first_out_inside_head; eauto|].
  split; [exact Hjbl|]. split; [exact Hjfl|]. split; [exact Hmle|].
  split; [now rewrite <- Hb1|]. split; [now rewrite <- Hf1|]. split; [exact Hpts|].
  split.
  { unfold plen. rewrite Hpts, app_length, rev_length.
    assert (A : length (firstn (S jb) (mk_stream (s_ncall s) true o' sb)) = S jb).
    { rewrite firstn_length, mk_stream_length. apply first_out_lt in Hjb. cbn [length] in Hjb. lia. }
    assert (B : length (tl (firstn (S jf) (mk_stream (S (s_ncall s)) false o' sf))) = jf).
    { cbn [firstn mk_stream number_from tl]. rewrite firstn_length, number_from_length.
      apply first_out_lt in Hjf. cbn [length] in Hjf. lia. }
    lia. }
  rewrite Hr. cbn [r_path r_src].
  destruct (paste_maxlen_torigin (t_back t) (t_forw t) true maxlength) as [M1 M2].
  split; [exact M1|]. split.
  { rewrite M2, Hplb. rewrite <- Hb1, Hpb. cbn [torigin]. lia. }
  rewrite <- Hf3. rewrite Hks. reflexivity.
Qed.

(* ================================================================== accept flag <-> ACC *)

Definition flag_ok (r : result) : Prop := r_acc r = true <-> r_status r = ACC.

Lemma flag_ok_fail st p g s : st <> ACC -> flag_ok (fail st p g s).
Proof. intros H. unfold flag_ok, fail. cbn. split; [discriminate|congruence]. Qed.

Lemma flag_ok_error s : flag_ok (error s).
Proof. unfold flag_ok, error. cbn. split; discriminate. Qed.

Lemma flag_ok_mk b st p g w s : (b = true <-> st = ACC) -> flag_ok (mkR b st p g w s).
Proof. intros H. exact H. Qed.

Ltac flag_step :=
  match goal with
  | |- flag_ok (error _) => apply flag_ok_error
  | |- flag_ok (fail (if ?c then _ else _) _ _ _) => destruct c; apply flag_ok_fail; discriminate
  | |- flag_ok (fail _ _ _ _) => apply flag_ok_fail; discriminate
  | |- flag_ok (mkR _ _ _ _ _ _) => apply flag_ok_mk; split; (discriminate || reflexivity)
  | |- flag_ok (match ?x with _ => _ end) => destruct x
  | |- flag_ok (if ?x then _ else _) => destruct x
  | |- flag_ok (let '(_, _) := ?x in _) => destruct x
  end.

Lemma shoot_flag fx i0 i1 i2 eL eR maxlength allowmax pL pR old old_ld s :
  flag_ok (shoot fx i0 i1 i2 eL eR maxlength allowmax pL pR old old_ld s).
Proof. unfold shoot. repeat flag_step. Qed.

Lemma extender_status fx e seg s ok trial st s' :
  extender fx e seg s = Some (ok, trial, st, s') ->
  (ok = true /\ st = ACC /\ (plen trial < e_maxlength e)%nat) \/
  (ok = false /\ st = FTX /\ (e_maxlength e <= plen trial)%nat).
Proof.
  unfold extender. intros H.
  destruct (pts seg) as [|f0 ?]; [discriminate|].
  match type of H with match ?x with _ => _ end = _ => destruct x as [[trial1 s1]|]; [|discriminate] end.
  destruct (rev (pts trial1)) as [|fl ?]; [discriminate|].
  match type of H with match ?x with _ => _ end = _ => destruct x as [[trial2 s2]|]; [|discriminate] end.
  destruct (Nat.leb_spec (e_maxlength e) (plen trial2)); injection H as <- <- <- <-; [right|left]; repeat split; assumption.
Qed.

Lemma wire_fencing_flag fx e scL scR old s : flag_ok (wire_fencing fx e scL scR old s).
Proof.
  unfold wire_fencing.
  destruct (wf_nframes _ _ _ =? 0)%nat; [apply flag_ok_fail; discriminate|].
  destruct (s_draws s) as [|u ds]; [apply flag_ok_error|].
  destruct (wf_pick _ _ _ _) as [sg|]; [|apply flag_ok_error].
  destruct (wf_jumps _ _ _ _ _ _) as [[[seg succ] s2]|]; [|apply flag_ok_error].
  destruct (succ =? 0)%nat; [apply flag_ok_fail; discriminate|].
  destruct (extender fx e seg s2) as [[[[ok1 trial] st1] s3]|] eqn:Eext; [|apply flag_ok_error].
  apply extender_status in Eext as [(-> & -> & _)|(-> & -> & _)]; cbn [negb].
  2: apply flag_ok_fail; discriminate.
  repeat flag_step.
Qed.

Lemma select_shoot_flag fx e old old_ld s : flag_ok (select_shoot fx e old old_ld s).
Proof.
  unfold select_shoot. destruct (e_move e); [apply shoot_flag|apply wire_fencing_flag|apply flag_ok_error].
Qed.

(* run_md keeps the new path exactly when the move reports ACC; otherwise the old one *)
Lemma run_md_keeps fx e old old_ld s intfs mvs lm1 capg minus :
  let '(r, kept, w) := run_md fx e old old_ld s intfs mvs lm1 capg minus in
  r = select_shoot fx e old old_ld s /\
  (r_acc r = true -> kept = r_path r /\ w = calc_cv_vector (orders (r_path r)) intfs mvs lm1 capg minus) /\
  (r_acc r = false -> kept = old /\ w = None).
Proof.
  unfold run_md. pose proof (select_shoot_flag fx e old old_ld s) as F. unfold flag_ok in F.
  destruct (r_status (select_shoot fx e old old_ld s)) eqn:Es; cbn [status_eqb];
    (split; [reflexivity|]); split; intros H; try (split; reflexivity);
    try (apply F in H; discriminate H);
    try (assert (E : r_acc (select_shoot fx e old old_ld s) = true) by (apply F; reflexivity); congruence).
Qed.

(* ================================================================== shooting index *)

Lemma floor_mul_range u n : 0 <= Qnum u -> Qnum u < Zpos (Qden u) -> 0 < n -> 0 <= floor_mul u n < n.
Proof.
  intros H0 H1 Hn. unfold floor_mul. split.
  - apply Z.div_pos; nia.
  - apply Z.div_lt_upper_bound; [lia|]. nia.
Qed.

Lemma shooting_index_interior u L :
  0 <= Qnum u -> Qnum u < Zpos (Qden u) -> (3 <= L)%nat ->
  (1 <= shooting_index u L <= L - 2)%nat.
Proof.
  intros H0 H1 HL. unfold shooting_index.
  pose proof (floor_mul_range u (Z.of_nat (L - 2)) H0 H1 ltac:(lia)) as [A B]. lia.
Qed.

(* ================================================================== streams, pointwise *)

Lemma first_out_split l r os : forall j,
  first_out l r os = Some j ->
  exists pre x post, os = pre ++ x :: post /\ length pre = j /\ outb l r x = true /\
                     Forall (fun o => outb l r o = false) pre.
Proof.
  induction os as [|a os IH]; intros j H; cbn in H; [discriminate|].
  destruct (outb l r a) eqn:Ea.
  - injection H as <-. exists [], a, os. repeat split; auto.
  - destruct (first_out l r os) as [j'|]; [|discriminate]. cbn in H. injection H as <-.
    destruct (IH j' eq_refl) as (pre & x & post & -> & Hl & Hx & Hall).
    exists (a :: pre), x, post. cbn. repeat split; auto.
Qed.

Lemma first_out_app_in l r pre x post :
  Forall (fun o => outb l r o = false) pre -> outb l r x = true ->
  first_out l r (pre ++ x :: post) = Some (length pre).
Proof.
  induction pre as [|a pre IH]; intros Hall Hx; cbn.
  - now rewrite Hx.
  - inversion Hall as [|? ? Ha Hp]; subst. rewrite Ha, IH by assumption. reflexivity.
Qed.

Lemma firstn_S_split {A} (pre : list A) x post : firstn (S (length pre)) (pre ++ x :: post) = pre ++ [x].
Proof.
  induction pre as [|a pre IH]; cbn; [reflexivity|]. f_equal. exact IH.
Qed.

Lemma number_from_nth n rv os : forall k i,
  nth_error (number_from n k rv os) i =
  option_map (fun o => mkF o (1000 * (Z.of_nat n + 1) + (k + Z.of_nat i)) rv 0%nat) (nth_error os i).
Proof.
  induction os as [|o os IH]; intros k i; cbn [number_from].
  - now destruct i.
  - destruct i as [|i]; cbn [nth_error option_map].
    + do 2 f_equal. lia.
    + rewrite IH. destruct (nth_error os i); cbn; [|reflexivity]. do 2 f_equal. lia.
Qed.

(* the k-th frame the engine offers in call number n: order os[k], tag 1000(n+1)+k *)
Definition eng_frame (n : nat) (rv : bool) (k : nat) (o : Z) : frame :=
  mkF o (1000 * (Z.of_nat n + 1) + Z.of_nat k) rv 0%nat.

Lemma mk_stream_nth n rv o0 os k :
  nth_error (mk_stream n rv o0 os) k = option_map (eng_frame n rv k) (nth_error (o0 :: os) k).
Proof. unfold mk_stream. rewrite number_from_nth. unfold eng_frame. destruct (nth_error (o0 :: os) k); cbn; [|reflexivity]. do 2 f_equal. Qed.

Lemma orders_mkP fs m t : orders (mkP fs m t) = map ford fs.
Proof. reflexivity. Qed.

Lemma map_tl {A B} (f : A -> B) l : map f (tl l) = tl (map f l).
Proof. now destruct l. Qed.

(* ================================================================== accepted shooting path: orders *)

Record acc_orders := mkAO { ao_xb : Z; ao_mb : list Z; ao_o : Z; ao_mf : list Z; ao_xf : Z }.

Definition ao_list (a : acc_orders) : list Z := ao_xb a :: rev (ao_mb a) ++ ao_o a :: ao_mf a ++ [ao_xf a].

Definition inside_all (l r : Z) (os : list Z) : Prop := Forall (fun o => l <= o <= r) os.

Lemma outb_false_Forall l r os :
  Forall (fun o => outb l r o = false) os -> inside_all l r os.
Proof. unfold inside_all. apply Forall_impl. intros o H. now apply outb_false. Qed.

Lemma shape_orders fx i0 i2 maxlength old s t h r :
  shoot_acc_shape fx i0 i2 maxlength old s t h r ->
  i0 <= shot_order s (t_sp t) < i2 ->
  exists a postb postf,
    ao_o a = shot_order s (t_sp t) /\
    h_sb h = ao_mb a ++ ao_xb a :: postb /\ h_sf h = ao_mf a ++ ao_xf a :: postf /\
    S (length (ao_mb a)) = h_jb h /\ S (length (ao_mf a)) = h_jf h /\
    outb i0 i2 (ao_xb a) = true /\ outb i0 i2 (ao_xf a) = true /\
    inside_all i0 i2 (ao_mb a) /\ inside_all i0 i2 (ao_mf a) /\
    orders (r_path r) = ao_list a /\
    orders (t_back t) = ao_o a :: ao_mb a ++ [ao_xb a].
Proof.
  unfold shoot_acc_shape. set (o' := shot_order s (t_sp t)).
  intros (Es & Hjb & Hjf & Hjb1 & Hjf1 & _ & _ & _ & Hback & _ & Hpts & _) Hk.
  assert (Hin : outb i0 i2 o' = false) by (apply outb_false; lia).
  cbn [first_out] in Hjb, Hjf. rewrite Hin in Hjb, Hjf.
  destruct (first_out i0 i2 (h_sb h)) as [jb'|] eqn:Ejb; [|discriminate]. cbn in Hjb. injection Hjb as Hjb.
  destruct (first_out i0 i2 (h_sf h)) as [jf'|] eqn:Ejf; [|discriminate]. cbn in Hjf. injection Hjf as Hjf.
  destruct (first_out_split _ _ _ _ Ejb) as (mb & xb & postb & Esb & Lb & Xb & Ab).
  destruct (first_out_split _ _ _ _ Ejf) as (mf & xf & postf & Esf & Lf & Xf & Af).
  exists (mkAO xb mb o' mf xf), postb, postf. cbn [ao_o ao_mb ao_xb ao_mf ao_xf].
  split; [reflexivity|]. split; [exact Esb|]. split; [exact Esf|].
  split; [lia|]. split; [lia|]. split; [exact Xb|]. split; [exact Xf|].
  split; [now apply outb_false_Forall|]. split; [now apply outb_false_Forall|].
  assert (FB : map ford (firstn (S (h_jb h)) (mk_stream (s_ncall s) true o' (h_sb h))) = o' :: mb ++ [xb]).
  { rewrite <- firstn_map, mk_stream_orders, Esb, <- Hjb, <- Lb.
    change (o' :: mb ++ xb :: postb) with ((o' :: mb) ++ xb :: postb).
    change (S (S (length mb))) with (S (length (o' :: mb))). now rewrite firstn_S_split. }
  assert (FF : map ford (firstn (S (h_jf h)) (mk_stream (S (s_ncall s)) false o' (h_sf h))) = o' :: mf ++ [xf]).
  { rewrite <- firstn_map, mk_stream_orders, Esf, <- Hjf, <- Lf.
    change (o' :: mf ++ xf :: postf) with ((o' :: mf) ++ xf :: postf).
    change (S (S (length mf))) with (S (length (o' :: mf))). now rewrite firstn_S_split. }
  split.
  - unfold orders, ao_list. rewrite Hpts, map_app, map_rev, map_tl, FB, FF. cbn [ao_o ao_mb ao_xb ao_mf ao_xf tl].
    cbn [rev]. rewrite rev_app_distr. cbn [rev app]. rewrite <- !app_assoc. reflexivity.
  - rewrite Hback. rewrite orders_mkP. exact FB.
Qed.

(* ================================================================== small facts *)

Lemma floor_div_le n r k : 0 < Qnum r -> (k <= floor_div n r <-> k * Qnum r <= n * Zpos (Qden r)).
Proof.
  intros Hr. unfold floor_div. split; intros H.
  - pose proof (Z.mul_div_le (n * Zpos (Qden r)) (Qnum r) Hr). nia.
  - apply Z.div_le_lower_bound; [exact Hr|]. lia.
Qed.

Lemma check_interfaces_some p i0 irest :
  orders p <> [] -> exists r, check_interfaces p (i0 :: irest) = Some r.
Proof.
  intros H. unfold check_interfaces, ordermin, ordermax. destruct (orders p) as [|x l]; [congruence|].
  destruct (argmin_from x 0%nat 1%nat l), (argmax_from x 0%nat 1%nat l). eauto.
Qed.

Lemma check_interfaces_orders p q intf : orders p = orders q -> check_interfaces p intf = check_interfaces q intf.
Proof. intros H. unfold check_interfaces, ordermin, ordermax, start_point, end_point. now rewrite H. Qed.

Lemma final_checks_orders i0 i1 i2 eL eR pL p q :
  orders p = orders q -> final_checks i0 i1 i2 eL eR pL p = final_checks i0 i1 i2 eL eR pL q.
Proof. intros H. unfold final_checks. now rewrite (check_interfaces_orders p q _ H). Qed.

(* what final_checks = ACC says about the orders of a non-empty path *)
Lemma final_checks_acc i0 i1 i2 eL eR pL p first lastv :
  final_checks i0 i1 i2 eL eR pL p = ACC ->
  hd_error (orders p) = Some first -> hd_error (rev (orders p)) = Some lastv ->
  (eL && eR = false -> exists x y, In x (orders p) /\ In y (orders p) /\ x < i1 <= y) /\
  (i0 <= i1 <= i2 -> pL = false -> i0 < first /\ i0 < lastv).
Proof.
  intros Hfc Hf Hl. unfold final_checks in Hfc.
  assert (Hne : orders p <> []) by (intros E; rewrite E in Hf; discriminate).
  destruct (check_interfaces_some p i0 [i1; i2] Hne) as (ci & Eci). rewrite Eci in Hfc.
  destruct (check_interfaces_spec _ _ _ Eci)
    as (omin & omax & f' & l' & left & right & Imin & Imax & Hext & Hf' & Hl' & Ileft & Iright & Hlr & Hcross & Hnth & _ & Hst & Hen).
  rewrite Hf in Hf'. injection Hf' as <-. rewrite Hl in Hl'. injection Hl' as <-.
  destruct (negb pL && (is_SL (ci_start ci) || is_SL (ci_end ci))) eqn:E1; [discriminate|].
  destruct (negb (eL && eR) && negb (nth 1 (ci_cross ci) false)) eqn:E2; [discriminate|].
  split.
  - intros Hb. rewrite Hb in E2. cbn [negb andb] in E2. apply negb_false_iff in E2.
    exists omin, omax. split; [exact Imin|]. split; [exact Imax|].
    apply (Hnth 1%nat i1 eq_refl). rewrite Hcross in *. cbn [map nth nth_error] in *. now rewrite E2.
  - intros Hord HpL. subst pL. cbn [negb andb] in E1. apply orb_false_iff in E1 as [A B].
    assert (left = i0).
    { assert (left <= i0) by (apply Hlr; cbn; auto).
      cbn in Ileft. destruct Ileft as [<-|[<-|[<-|[]]]]; lia. }
    subst left. rewrite Hst in A. rewrite Hen in B. cbn [is_SL] in A, B. unfold classify in A, B.
    destruct (Z.leb_spec first i0); [discriminate|]. destruct (Z.leb_spec lastv i0); [discriminate|]. lia.
Qed.

Lemma hd_error_ao a : hd_error (ao_list a) = Some (ao_xb a).
Proof. reflexivity. Qed.

Lemma last_ao a : hd_error (rev (ao_list a)) = Some (ao_xf a).
Proof.
  unfold ao_list.
  assert (E : ao_xb a :: rev (ao_mb a) ++ ao_o a :: ao_mf a ++ [ao_xf a] =
              (ao_xb a :: rev (ao_mb a) ++ ao_o a :: ao_mf a) ++ [ao_xf a]).
  { cbn. f_equal. rewrite <- app_assoc. reflexivity. }
  rewrite E, rev_app_distr. reflexivity.
Qed.

Lemma ao_length a : length (ao_list a) = (S (length (ao_mb a)) + S (length (ao_mf a)) + 1)%nat.
Proof. unfold ao_list. cbn [length]. rewrite app_length, rev_length. cbn [length]. rewrite app_length. cbn. lia. Qed.

Lemma ao_nth_shoot a : nth_error (ao_list a) (S (length (ao_mb a))) = Some (ao_o a).
Proof.
  unfold ao_list. cbn [nth_error]. rewrite nth_error_app2 by (rewrite rev_length; lia).
  rewrite rev_length, Nat.sub_diag. reflexivity.
Qed.

Lemma end_point_last p l r x :
  l <= r -> hd_error (rev (orders p)) = Some x -> end_point p l r = Some (classify l r x).
Proof.
  intros Hlr H. unfold end_point. destruct (Z.ltb_spec r l); [lia|].
  destruct (rev (orders p)); [discriminate|]. cbn in H. now injection H as ->.
Qed.

(* ================================================================== validity of an accepted shooting path *)

Record shoot_valid (fx : bool) (i0 i1 i2 : Z) (eL eR : bool) (maxlength : nat) (allowmax : bool)
       (pL pR : bool) (old : path) (old_ld : bool) (s : src) (r : result) (a : acc_orders) : Prop := {
  sv_orders : orders (r_path r) = ao_list a;
  (* (i) both end points are outside [i0, i2] (the code's own stop rule), the start lies on a side the
         start condition allows, and without "L" neither end is on the left *)
  sv_start_out : ao_xb a < i0 \/ i2 < ao_xb a;
  sv_end_out : ao_xf a < i0 \/ i2 < ao_xf a;
  sv_start_side : in_sc pL pR (Some (classify i0 i2 (ao_xb a))) = true;
  sv_no_left : i0 <= i1 <= i2 -> pL = false -> i2 < ao_xb a /\ i2 < ao_xf a;
  (* (ii) every other frame is inside *)
  sv_inside : inside_all i0 i2 (rev (ao_mb a) ++ ao_o a :: ao_mf a);
  sv_shot_inside : i0 <= ao_o a < i2;
  (* (iii) the ensemble's interface is crossed *)
  sv_cross : eL && eR = false -> exists x y, In x (ao_list a) /\ In y (ao_list a) /\ x < i1 <= y;
  (* (iv) length limits *)
  sv_len : (plen (r_path r) <= maxlength)%nat /\ (3 <= plen (r_path r))%nat /\ maxlen (r_path r) = maxlength;
  sv_len_drawn : old_ld || allowmax = false ->
      exists u rr ds, s_draws s = u :: rr :: ds /\ 0 < Qnum rr /\
        (Z.of_nat (plen (r_path r)) - 2) * Qnum rr <= (Z.of_nat (plen old) - 2) * Zpos (Qden rr);
  (* (v) the shooting point: index in the old path, index in the new one *)
  sv_index : exists u ds sp, s_draws s = u :: ds /\ g_a (r_gen r) = shooting_index u (plen old) /\
      (1 <= g_a (r_gen r) < plen old)%nat /\
      nth_error (pts old) (g_a (r_gen r)) = Some sp /\ ao_o a = shot_order s sp /\ g_order (r_gen r) = ao_o a /\
      torigin (r_path r) = torigin old + Z.of_nat (g_a (r_gen r)) - Z.of_nat (g_b (r_gen r));
  sv_shot_at : g_b (r_gen r) = S (length (ao_mb a)) /\ nth_error (orders (r_path r)) (g_b (r_gen r)) = Some (ao_o a);
  (* (vi) time order: position p holds the frame the engine produced |p - g_b| steps away from the
          shooting point, backward call (number n) before it, forward call (number n+1) after it *)
  sv_time : exists sb sf rest, s_streams s = sb :: sf :: rest /\
      let jb := g_b (r_gen r) in
      (forall p, (p <= jb)%nat ->
         nth_error (pts (r_path r)) p =
         option_map (eng_frame (s_ncall s) true (jb - p)) (nth_error (ao_o a :: sb) (jb - p))) /\
      (forall p, (jb < p < plen (r_path r))%nat ->
         nth_error (pts (r_path r)) p =
         option_map (eng_frame (S (s_ncall s)) false (p - jb)) (nth_error (ao_o a :: sf) (p - jb))) /\
      (forall p, (p < plen (r_path r))%nat -> nth_error (pts (r_path r)) p <> None);
  sv_flag : r_acc r = true /\ r_weight r = 1
}.

Lemma shoot_acc_valid fx i0 i1 i2 eL eR maxlength allowmax pL pR old old_ld s :
  r_status (shoot fx i0 i1 i2 eL eR maxlength allowmax pL pR old old_ld s) = ACC ->
  exists a, shoot_valid fx i0 i1 i2 eL eR maxlength allowmax pL pR old old_ld s
              (shoot fx i0 i1 i2 eL eR maxlength allowmax pL pR old old_ld s) a.
Proof.
  intros Hacc. destruct (shoot_acc_inv _ _ _ _ _ _ _ _ _ _ _ _ _ Hacc) as (t & Hfacts).
  destruct (shoot_acc_struct _ _ _ _ _ _ _ _ _ _ _ _ _ _ _ Hfacts) as (h & Hshape).
  set (R := shoot fx i0 i1 i2 eL eR maxlength allowmax pL pR old old_ld s) in *.
  pose proof Hfacts as (Hd & HL & Hsp & Hk & Hml & Hb & Hep & Hsc & Hf & Hfc & HR).
  destruct (shape_orders _ _ _ _ _ _ _ _ _ Hshape Hk)
    as (a & postb & postf & Ho & Esb & Esf & Ljb & Ljf & Xb & Xf & Ib & If & Hord & Hbord).
  pose proof Hshape as (Es & Hjb & Hjf & Hjb1 & Hjf1 & Hlb & Hlf & Hmle & Hback & Hforw & Hpts & Hplen & Hmaxl & Htor & Hsrc).
  set (o' := shot_order s (t_sp t)) in *.
  assert (HRpath : r_path R = paste (t_back t) (t_forw t) true (Some maxlength)) by (rewrite HR; reflexivity).
  assert (HRgen : r_gen R = mkG o' (shooting_index (t_u t) (plen old)) (plen (t_back t) - 1)) by (rewrite HR; reflexivity).
  assert (Hplb : plen (t_back t) = S (h_jb h)).
  { unfold plen. rewrite <- (map_length ford). change (map ford (pts (t_back t))) with (orders (t_back t)).
    rewrite Hbord. cbn [length]. rewrite app_length. cbn. lia. }
  assert (Hgb : g_b (r_gen R) = S (length (ao_mb a))) by (rewrite HRgen; cbn [g_b]; lia).
  exists a. constructor.
  - exact Hord.
  - now apply outb_true.
  - now apply outb_true.
  - assert (E : end_point (t_back t) i0 i2 = Some (classify i0 i2 (ao_xb a))).
    { apply end_point_last; [lia|]. rewrite Hbord.
      change (ao_o a :: ao_mb a ++ [ao_xb a]) with ((ao_o a :: ao_mb a) ++ [ao_xb a]). rewrite rev_app_distr. reflexivity. }
    rewrite E in Hep. injection Hep as Hep. rewrite Hep. exact Hsc.
  - intros Hint HpL.
    rewrite <- HRpath in Hfc.
    destruct (final_checks_acc _ _ _ _ _ _ _ (ao_xb a) (ao_xf a) Hfc) as [_ HH].
    + rewrite Hord. apply hd_error_ao.
    + rewrite Hord. apply last_ao.
    + specialize (HH Hint HpL). apply outb_true in Xb, Xf. lia.
  - unfold inside_all in *. apply Forall_app. split; [apply Forall_rev; exact Ib|].
    constructor; [rewrite Ho; fold o'; lia|exact If].
  - rewrite Ho. exact Hk.
  - intros Hb2. rewrite <- HRpath in Hfc.
    destruct (final_checks_acc _ _ _ _ _ _ _ (ao_xb a) (ao_xf a) Hfc) as [HH _].
    + rewrite Hord. apply hd_error_ao.
    + rewrite Hord. apply last_ao.
    + rewrite <- Hord. exact (HH Hb2).
  - split; [|split; [|exact Hmaxl]].
    + rewrite Hplen. pose proof (lim_le fx (t_ml t - 1)). pose proof (lim_le fx (t_ml t - S (h_jb h) + 1)). lia.
    + rewrite Hplen. lia.
  - intros Hlim. apply choose_maxlen_spec in Hml as (_ & _ & _ & _ & _ & Hdr).
    destruct (Hdr Hlim) as (rr & ds' & Eds & Hrr & Hmlv & _).
    exists (t_u t), rr, ds'. split; [rewrite Hd, Eds; reflexivity|]. split; [exact Hrr|].
    rewrite Hplen.
    pose proof (lim_le fx (t_ml t - 1)). pose proof (lim_le fx (t_ml t - S (h_jb h) + 1)).
    assert (Hle : (S (h_jb h) + h_jf h <= t_ml t)%nat) by lia.
    rewrite Hmlv in Hle. unfold draw_maxlen in Hle.
    assert (Hfd : Z.of_nat (S (h_jb h) + h_jf h) - 2 <= floor_div (Z.of_nat (plen old - 2)) rr) by lia.
    apply floor_div_le in Hfd; [|exact Hrr]. lia.
  - exists (t_u t), (t_ds t), (t_sp t). rewrite HRgen. cbn [g_a g_b g_order].
    split; [exact Hd|]. split; [reflexivity|]. split.
    + split; [unfold shooting_index; lia|]. apply nth_error_Some. rewrite Hsp. discriminate.
    + split; [exact Hsp|]. split; [exact Ho|]. split; [now rewrite Ho|].
      rewrite Htor, Hplb. lia.
  - split; [exact Hgb|]. rewrite Hgb, Hord. apply ao_nth_shoot.
  - exists (h_sb h), (h_sf h), (h_rest h). split; [exact Es|]. cbv zeta.
    rewrite Hgb, Ljb, Ho. fold o'.
    assert (LB : length (firstn (S (h_jb h)) (mk_stream (s_ncall s) true o' (h_sb h))) = S (h_jb h)).
    { rewrite firstn_length, mk_stream_length. apply first_out_lt in Hjb. cbn [length] in Hjb. lia. }
    assert (LF : length (tl (firstn (S (h_jf h)) (mk_stream (S (s_ncall s)) false o' (h_sf h)))) = h_jf h).
    { cbn [firstn mk_stream number_from tl]. rewrite firstn_length, number_from_length.
      apply first_out_lt in Hjf. cbn [length] in Hjf. lia. }
    split; [|split].
    + intros p Hp. rewrite Hpts. rewrite nth_error_app1 by (rewrite rev_length, LB; lia).
      rewrite nth_error_rev by (rewrite LB; lia). rewrite LB.
      rewrite nth_error_firstn' by lia. rewrite mk_stream_nth.
      replace (S (h_jb h) - S p)%nat with (h_jb h - p)%nat by lia. reflexivity.
    + intros p Hp. rewrite Hplen in Hp. rewrite Hpts. rewrite nth_error_app2 by (rewrite rev_length, LB; lia).
      rewrite rev_length, LB.
      assert (Etl : forall (A : Type) (l : list A) k, nth_error (tl l) k = nth_error l (S k)) by (intros A [|x l] k; [now destruct k|reflexivity]).
      rewrite Etl. rewrite nth_error_firstn' by lia. rewrite mk_stream_nth.
      replace (S (p - S (h_jb h)))%nat with (p - h_jb h)%nat by lia. reflexivity.
    + intros p Hp. apply nth_error_Some. exact Hp.
  - rewrite HR. split; reflexivity.
Qed.

Definition trial_orders (o' : Z) (sb sf : list Z) (jb jf : nat) : list Z :=
  rev (firstn (S jb) (o' :: sb)) ++ tl (firstn (S jf) (o' :: sf)).

Definition path_of_orders (os : list Z) : path := mkP (map (fun o => mkF o 0 false 0%nat) os) 0%nat 0.

(* the trial path of unlimited length would be a valid path of the ensemble: the backward part ends on
   an allowed side and the three final tests of shoot pass *)
Definition trial_valid (i0 i1 i2 : Z) (eL eR pL pR : bool) (os : list Z) : Prop :=
  (exists first, hd_error os = Some first /\ in_sc pL pR (Some (classify i0 i2 first)) = true) /\
  final_checks i0 i1 i2 eL eR pL (path_of_orders os) = ACC.

Definition delta (fx : bool) : nat := if fx then 0%nat else 1%nat.

Lemma lim_delta fx ml : lim fx ml = (ml - delta fx)%nat.
Proof. unfold lim, delta. destruct fx; lia. Qed.

Lemma shoot_status_reach fx i0 i1 i2 eL eR maxlength pL pR old s u rr ds sp sb sf rest jb jf :
  s_draws s = u :: rr :: ds -> 0 < Qnum rr ->
  (3 <= plen old)%nat ->
  nth_error (pts old) (shooting_index u (plen old)) = Some sp ->
  i0 <= shot_order s sp < i2 ->
  s_streams s = sb :: sf :: rest ->
  first_out i0 i2 (shot_order s sp :: sb) = Some jb -> first_out i0 i2 (shot_order s sp :: sf) = Some jf ->
  (jb + jf + 1 <= maxlength)%nat ->
  trial_valid i0 i1 i2 eL eR pL pR (trial_orders (shot_order s sp) sb sf jb jf) ->
  (r_status (shoot fx i0 i1 i2 eL eR maxlength false pL pR old false s) = ACC <->
   (jb + jf + 1 + delta fx <= draw_maxlen (plen old) rr maxlength)%nat).
Proof.
  intros Hd Hrr HL Hsp Hk Es Hjb Hjf Hmax [(first & Hfirst & Hside) Hfc].
  set (o' := shot_order s sp) in *.
  assert (Hin : outb i0 i2 o' = false) by (apply outb_false; lia).
  pose proof (first_out_inside_head _ _ _ _ _ Hin Hjb) as Hjb1.
  pose proof (first_out_inside_head _ _ _ _ _ Hin Hjf) as Hjf1.
  unfold shoot. rewrite Hd.
  destruct (Nat.ltb_spec (plen old) 3) as [?|_]; [lia|].
  rewrite Hsp. rewrite kick_split. cbv beta iota. fold (shot_order s sp). fold o'.
  destruct (Z.leb_spec i0 o') as [_|?]; [|lia]. destruct (Z.ltb_spec o' i2) as [_|?]; [|lia].
  cbn [andb negb orb].
  destruct (Z.leb_spec (Qnum rr) 0) as [?|_]; [lia|].
  set (ml := draw_maxlen (plen old) rr maxlength).
  set (t0 := torigin old + Z.of_nat (shooting_index u (plen old))).
  rewrite run_propagate_eq. cbn [s_streams s_ncall s_draws s_kicks]. rewrite Es.
  destruct (Nat.eqb_spec (ml - 1) 0) as [E0|E0].
  { cbn [error r_status]. split; [discriminate|]. intros H. lia. }
  rewrite (prop_empty_complete fx (ml - 1) t0 _ i0 i2 jb); [|rewrite mk_stream_orders; exact Hjb|lia].
  rewrite lim_delta.
  destruct (Nat.leb_spec (S jb) (ml - 1 - delta fx)) as [Hb|Hb].
  2:{ cbn [negb]. split; [destruct (maxlength - 1 <=? _)%nat; discriminate|]. intros H. lia. }
  cbn [negb].
  set (B := mk_stream (s_ncall s) true o' sb).
  assert (LB : length (firstn (S jb) B) = S jb).
  { rewrite firstn_length. unfold B. rewrite mk_stream_length. apply first_out_lt in Hjb. cbn [length] in Hjb. lia. }
  assert (OB : map ford (firstn (S jb) B) = firstn (S jb) (o' :: sb)).
  { rewrite <- firstn_map. unfold B. now rewrite mk_stream_orders. }
  set (back := mkP (firstn (S jb) B) (ml - 1) t0).
  assert (Hpb : plen back = S jb) by (unfold plen, back; cbn [pts]; exact LB).
  assert (Hob : orders back = firstn (S jb) (o' :: sb)) by exact OB.
  assert (Hlast : hd_error (rev (orders back)) = Some first).
  { rewrite Hob. unfold trial_orders in Hfirst.
    destruct (rev (firstn (S jb) (o' :: sb))) as [|x l] eqn:Er; [|exact Hfirst].
    apply (f_equal (@length Z)) in Er. rewrite rev_length, <- OB, map_length, LB in Er. discriminate. }
  rewrite (end_point_last back i0 i2 first) by (try lia; exact Hlast).
  rewrite Hside. cbn [negb]. rewrite Hpb.
  rewrite run_propagate_eq. cbn [s_streams s_ncall s_draws s_kicks].
  destruct (Nat.eqb_spec (ml - S jb + 1) 0) as [E1|E1]; [lia|].
  rewrite (prop_empty_complete fx (ml - S jb + 1) t0 _ i0 i2 jf); [|rewrite mk_stream_orders; exact Hjf|lia].
  rewrite lim_delta.
  destruct (Nat.leb_spec (S jf) (ml - S jb + 1 - delta fx)) as [Hf|Hf].
  2:{ cbn [negb]. split; [destruct (_ =? maxlength)%nat; discriminate|]. intros H. lia. }
  cbn [negb].
  set (F := mk_stream (S (s_ncall s)) false o' sf).
  set (forw := mkP (firstn (S jf) F) (ml - S jb + 1) t0).
  set (trial := paste back forw true (Some maxlength)).
  assert (LF : length (firstn (S jf) F) = S jf).
  { rewrite firstn_length. unfold F. rewrite mk_stream_length. apply first_out_lt in Hjf. cbn [length] in Hjf. lia. }
  assert (Hot : orders trial = trial_orders o' sb sf jb jf).
  { unfold trial, orders. rewrite paste_untruncated.
    - unfold forw_part, forw, back. cbn [pts]. rewrite map_app, map_rev, map_tl, OB.
      rewrite <- firstn_map. unfold F. rewrite mk_stream_orders. reflexivity.
    - rewrite forw_part_length, Hpb. unfold plen, forw. cbn [pts]. rewrite LF. lia. }
  assert (Hfc' : final_checks i0 i1 i2 eL eR pL trial = ACC).
  { rewrite (final_checks_orders _ _ _ _ _ _ trial (path_of_orders (trial_orders o' sb sf jb jf))); [exact Hfc|].
    rewrite Hot. unfold path_of_orders. symmetry. apply orders_mk. }
  unfold final_checks in Hfc'.
  destruct (match check_interfaces trial [i0; i1; i2] with
            | Some r => (ci_start r, ci_end r, nth 1 (ci_cross r) false)
            | None => (None, None, false)
            end) as [[cst cen] cmid].
  destruct (negb pL && (is_SL cst || is_SL cen)); [discriminate|].
  destruct (negb (eL && eR) && negb cmid); [discriminate|].
  cbn [r_status]. split; [intros _; lia|reflexivity].
Qed.

Lemma draw_maxlen_ge L rr maxlength k :
  0 < Qnum rr -> (2 <= L)%nat -> (3 <= k)%nat ->
  ((k <= draw_maxlen L rr maxlength)%nat <->
   (k <= maxlength)%nat /\ (Z.of_nat k - 2) * Qnum rr <= (Z.of_nat L - 2) * Zpos (Qden rr)).
Proof.
  intros Hr HL Hk. unfold draw_maxlen.
  pose proof (floor_div_le (Z.of_nat (L - 2)) rr (Z.of_nat k - 2) Hr) as F.
  replace (Z.of_nat (L - 2)) with (Z.of_nat L - 2) in * by lia.
  split.
  - intros H. split; [lia|]. apply F. lia.
  - intros [H1 H2]. apply F in H2. lia.
Qed.

(* the acceptance rule of the repaired code: r <= n_old / n_new *)
Theorem shoot_accept_rule i0 i1 i2 eL eR maxlength pL pR old s u rr ds sp sb sf rest jb jf :
  s_draws s = u :: rr :: ds -> 0 < Qnum rr ->
  (3 <= plen old)%nat ->
  nth_error (pts old) (shooting_index u (plen old)) = Some sp ->
  i0 <= shot_order s sp < i2 ->
  s_streams s = sb :: sf :: rest ->
  first_out i0 i2 (shot_order s sp :: sb) = Some jb -> first_out i0 i2 (shot_order s sp :: sf) = Some jf ->
  (jb + jf + 1 <= maxlength)%nat ->
  trial_valid i0 i1 i2 eL eR pL pR (trial_orders (shot_order s sp) sb sf jb jf) ->
  (r_status (shoot true i0 i1 i2 eL eR maxlength false pL pR old false s) = ACC <->
   (rr <= (Z.of_nat (plen old) - 2) # Z.to_pos (Z.of_nat (jb + jf + 1) - 2))%Q).
Proof.
  intros Hd Hrr HL Hsp Hk Es Hjb Hjf Hmax Hv.
  rewrite (shoot_status_reach true _ _ _ _ _ _ _ _ _ _ _ _ _ _ _ _ _ _ _ Hd Hrr HL Hsp Hk Es Hjb Hjf Hmax Hv).
  assert (Hin : outb i0 i2 (shot_order s sp) = false) by (apply outb_false; lia).
  pose proof (first_out_inside_head _ _ _ _ _ Hin Hjb). pose proof (first_out_inside_head _ _ _ _ _ Hin Hjf).
  cbn [delta]. rewrite Nat.add_0_r. rewrite draw_maxlen_ge by (try exact Hrr; lia).
  unfold Qle. cbn [Qnum Qden]. rewrite Z2Pos.id by lia. split; [intros [_ H']|intros H'; split]; lia.
Qed.

(* the rule before the repair of add_to_path: one more frame is demanded *)
Theorem shoot_accept_rule_old i0 i1 i2 eL eR maxlength pL pR old s u rr ds sp sb sf rest jb jf :
  s_draws s = u :: rr :: ds -> 0 < Qnum rr ->
  (3 <= plen old)%nat ->
  nth_error (pts old) (shooting_index u (plen old)) = Some sp ->
  i0 <= shot_order s sp < i2 ->
  s_streams s = sb :: sf :: rest ->
  first_out i0 i2 (shot_order s sp :: sb) = Some jb -> first_out i0 i2 (shot_order s sp :: sf) = Some jf ->
  (jb + jf + 2 <= maxlength)%nat ->
  trial_valid i0 i1 i2 eL eR pL pR (trial_orders (shot_order s sp) sb sf jb jf) ->
  (r_status (shoot false i0 i1 i2 eL eR maxlength false pL pR old false s) = ACC <->
   (rr <= (Z.of_nat (plen old) - 2) # Z.to_pos (Z.of_nat (jb + jf + 1) - 1))%Q).
Proof.
  intros Hd Hrr HL Hsp Hk Es Hjb Hjf Hmax Hv.
  assert (Hmax' : (jb + jf + 1 <= maxlength)%nat) by lia.
  rewrite (shoot_status_reach false _ _ _ _ _ _ _ _ _ _ _ _ _ _ _ _ _ _ _ Hd Hrr HL Hsp Hk Es Hjb Hjf Hmax' Hv).
  assert (Hin : outb i0 i2 (shot_order s sp) = false) by (apply outb_false; lia).
  pose proof (first_out_inside_head _ _ _ _ _ Hin Hjb). pose proof (first_out_inside_head _ _ _ _ _ Hin Hjf).
  cbn [delta]. rewrite draw_maxlen_ge by (try exact Hrr; lia).
  replace (Z.of_nat (jb + jf + 1 + 1) - 2) with (Z.of_nat (jb + jf + 1) - 1) by lia.
  unfold Qle. cbn [Qnum Qden]. rewrite Z2Pos.id by lia. split; [intros [_ H']|intros H'; split]; lia.
Qed.

(* witness (lead L11): old path of 7 frames, r = 1/2, trial path of 12 frames *)
Definition l11_old : path :=
  mkP [mkF 0 0 false 0%nat; mkF 2 1 false 0%nat; mkF 2 2 false 0%nat; mkF 2 3 false 0%nat;
       mkF 2 4 false 0%nat; mkF 2 5 false 0%nat; mkF 0 6 false 0%nat] 100%nat 0.
Definition l11_src : src := mkS [0#1; 1#2]%Q [] [[0]; [2;2;2;2;2;2;2;2;2;5]] 0%nat.

Lemma l11_old_rule_rejects :
  r_status (shoot false 1 3 4 true false 100 false true false l11_old false l11_src) = FTL.
Proof. vm_compute. reflexivity. Qed.

Lemma l11_new_rule_accepts :
  r_status (shoot true 1 3 4 true false 100 false true false l11_old false l11_src) = ACC /\
  orders (r_path (shoot true 1 3 4 true false 100 false true false l11_old false l11_src)) = [0;2;2;2;2;2;2;2;2;2;2;5].
Proof. vm_compute. split; reflexivity. Qed.

(* ================================================================== one propagate call from an inside point *)

Lemma run_propagate_short fx ml t0 rv o0 l r s p ok s' :
  run_propagate fx ml t0 rv o0 l r s = Some (p, ok, s') ->
  outb l r o0 = false ->
  (1 <= plen p)%nat /\ maxlen p = ml /\
  ((plen p < ml)%nat ->
   exists m x, orders p = o0 :: m ++ [x] /\ inside_all l r m /\ outb l r x = true).
Proof.
  intros H Hin. rewrite run_propagate_eq in H.
  destruct (s_streams s) as [|os rest]; [discriminate|].
  destruct (Nat.eqb_spec ml 0) as [E0|E0]; [discriminate|].
  destruct (prop_empty fx ml t0 (mk_stream (s_ncall s) rv o0 os) l r) as [[p' ok']|] eqn:Ep; [|discriminate].
  injection H as <- <- _.
  destruct ok'.
  - apply prop_empty_success in Ep as (j & Hj & _ & ->). rewrite mk_stream_orders in Hj.
    pose proof (first_out_lt _ _ _ _ Hj) as Hlt. cbn [length] in Hlt.
    assert (Hlen : length (firstn (S j) (mk_stream (s_ncall s) rv o0 os)) = S j).
    { rewrite firstn_length, mk_stream_length. lia. }
    split; [unfold plen; cbn [pts]; lia|]. split; [reflexivity|]. intros _.
    cbn [first_out] in Hj. rewrite Hin in Hj.
    destruct (first_out l r os) as [j'|] eqn:Ej; [|discriminate]. cbn in Hj. injection Hj as <-.
    destruct (first_out_split _ _ _ _ Ej) as (m & x & post & -> & Lm & Hx & Hall).
    exists m, x. split; [|split; [now apply outb_false_Forall|exact Hx]].
    rewrite orders_mkP, <- firstn_map, mk_stream_orders, <- Lm.
    change (o0 :: m ++ x :: post) with ((o0 :: m) ++ x :: post).
    change (S (S (length m))) with (S (length (o0 :: m))). now rewrite firstn_S_split.
  - destruct (prop_empty_fail_len _ _ _ _ _ _ _ Ep ltac:(lia)) as [A B].
    split; [lia|]. split; [exact B|]. intros; lia.
Qed.

(* ================================================================== the jump loop *)

(* a segment accepted by the sub-ensemble (i1, i1, cap): the copy of an accepted shooting path *)
Definition wf_segment (fx : bool) (e : ensemble) (seg : path) : Prop :=
  exists segk sk,
    let r := shoot fx (e_i1 e) (e_i1 e) (cap_of e) (e_scL e) (e_scR e) (e_maxlength e) true true true segk false sk in
    r_status r = ACC /\ seg = copy 0 (r_path r).

Lemma wf_jumps_inv fx e : forall nj seg0 succ0 s seg succ s',
  wf_jumps fx e nj seg0 succ0 s = Some (seg, succ, s') ->
  (succ0 <= succ)%nat /\ ((succ0 < succ)%nat \/ wf_segment fx e seg0 -> wf_segment fx e seg) /\
  (succ0 = succ -> seg = seg0).
Proof.
  induction nj as [|nj IH]; intros seg0 succ0 s seg succ s' H; cbn [wf_jumps] in H.
  - injection H as <- <- <-. split; [lia|]. split; [intros [?|?]; [lia|assumption]|reflexivity].
  - set (r := shoot fx (e_i1 e) (e_i1 e) (cap_of e) (e_scL e) (e_scR e) (e_maxlength e) true true true seg0 false s) in *.
    pose proof (shoot_flag fx (e_i1 e) (e_i1 e) (cap_of e) (e_scL e) (e_scR e) (e_maxlength e) true true true seg0 false s) as F.
    fold r in F. unfold flag_ok in F.
    assert (H' : (if r_acc r then wf_jumps fx e nj (copy 0 (r_path r)) (S succ0) (r_src r)
                  else wf_jumps fx e nj seg0 succ0 (r_src r)) = Some (seg, succ, s')).
    { destruct (r_status r); try exact H; discriminate H. }
    clear H. destruct (r_acc r) eqn:Eacc.
    + apply IH in H' as (A & B & C). split; [lia|]. split; [|intros; lia].
      intros _. apply B. right. exists seg0, s. fold r. split; [apply F; reflexivity|reflexivity].
    + apply IH in H' as (A & B & C). split; [lia|]. split; [exact B|exact C].
Qed.

(* ================================================================== orders of copies and reversals *)

Lemma orders_erase p : orders p = map (fun x => fst (fst x)) (map erase (pts p)).
Proof. unfold orders. rewrite map_map. reflexivity. Qed.

Lemma copy_orders next p : (plen p <= maxlen p)%nat -> orders (copy next p) = orders p /\ maxlen (copy next p) = maxlen p.
Proof.
  intros H. destruct (copy_frames_same next p H) as (A & B & _). split; [|exact B].
  now rewrite !orders_erase, A.
Qed.

Lemma eflip_fst l : map (fun x : Z * Z * bool => fst (fst x)) (map eflip l) = map (fun x => fst (fst x)) l.
Proof. rewrite map_map. apply map_ext. intros [[a b] c]. reflexivity. Qed.

Lemma reverse_orders next p rv : (plen p <= maxlen p)%nat -> orders (reverse next p rv) = rev (orders p).
Proof.
  intros H. pose proof (reverse_frames next p rv H) as A. rewrite !orders_erase, A.
  destruct rv; [rewrite eflip_fst|]; now rewrite map_rev.
Qed.

(* ================================================================== extender *)

(* how one side was completed: nothing added because the end frame already is not in [i0, i2), or the
   frames of a trajectory that leaves [i0, i2] *)
Definition ext_side (i0 i2 : Z) (endv : Z) (added : list Z) : Prop :=
  (added = [] /\ (endv < i0 \/ i2 <= endv)) \/
  (i0 <= endv < i2 /\ exists m x, added = m ++ [x] /\ inside_all i0 i2 m /\ outb i0 i2 x = true).

Lemma in_range_b i0 i2 x : (i0 <=? x) && (x <? i2) = true <-> i0 <= x < i2.
Proof. rewrite andb_true_iff, Z.leb_le, Z.ltb_lt. tauto. Qed.

Lemma removelast_map {A B} (f : A -> B) l : map f (removelast l) = removelast (map f l).
Proof.
  induction l as [|a l IH]; [reflexivity|]. destruct l as [|b l]; [reflexivity|].
  cbn [removelast map] in *. now rewrite IH.
Qed.

Lemma extender_acc fx e seg s trial s' first lastv :
  extender fx e seg s = Some (true, trial, ACC, s') ->
  (plen seg <= maxlen seg)%nat -> maxlen seg = e_maxlength e ->
  hd_error (orders seg) = Some first -> hd_error (rev (orders seg)) = Some lastv ->
  e_i0 e <= e_i2 e ->
  (plen trial < e_maxlength e)%nat /\ maxlen trial = e_maxlength e /\
  exists pre post,
    orders trial = rev pre ++ orders seg ++ post /\
    ext_side (e_i0 e) (e_i2 e) first pre /\ ext_side (e_i0 e) (e_i2 e) lastv post.
Proof.
  unfold extender. intros H Hfit Hml Hfirst Hlast Hint.
  set (i0 := e_i0 e) in *. set (i2 := e_i2 e) in *. set (ml := e_maxlength e) in *.
  destruct (pts seg) as [|f0 rest0] eqn:Eseg; [discriminate|].
  assert (Hf0 : ford f0 = first).
  { unfold orders in Hfirst. rewrite Eseg in Hfirst. cbn in Hfirst. now injection Hfirst. }
  assert (Hoseg : orders seg = first :: map ford rest0).
  { unfold orders. rewrite Eseg. cbn. now rewrite Hf0. }
  (* step 1 *)
  match type of H with match ?x with _ => _ end = _ => destruct x as [[trial1 s1]|] eqn:E1; [|discriminate] end.
  destruct (rev (pts trial1)) as [|fl restl] eqn:Erl; [discriminate|].
  match type of H with match ?x with _ => _ end = _ => destruct x as [[trial2 s2]|] eqn:E2; [|discriminate] end.
  destruct (Nat.leb_spec ml (plen trial2)) as [?|Hshort]; [discriminate|].
  injection H as <- <-.
  (* trial2 is at least as long as trial1 *)
  assert (H12 : (plen trial1 <= plen trial2)%nat /\ maxlen trial2 = maxlen trial1 /\
                exists post, orders trial2 = orders trial1 ++ post /\ ext_side i0 i2 (ford fl) post).
  { destruct ((i0 <=? ford fl) && (ford fl <? i2)) eqn:Ein.
    - destruct (run_propagate fx ml 0 false (ford fl) i0 i2 s1) as [[[forth okf] s3]|] eqn:Ef; [|discriminate].
      injection E2 as <- <-. apply in_range_b in Ein.
      destruct (run_propagate_short _ _ _ _ _ _ _ _ _ _ _ Ef) as (F1 & F2 & F3); [apply outb_false; lia|].
      assert (Hl1 : pts trial1 = removelast (pts trial1) ++ [fl]).
      { rewrite <- (rev_involutive (pts trial1)) at 1. rewrite Erl. cbn [rev].
        f_equal. rewrite <- (rev_involutive (pts trial1)) at 1. rewrite Erl. cbn [rev]. now rewrite removelast_last. }
      assert (Hlen1 : plen trial1 = S (length (removelast (pts trial1)))).
      { unfold plen. rewrite Hl1 at 1. rewrite app_length. cbn. lia. }
      unfold plen in *. cbn [pts maxlen] in *. rewrite app_length in *.
      split; [lia|]. split; [reflexivity|].
      destruct F3 as (m & x & Ho & Im & Hx); [lia|].
      exists (m ++ [x]). split.
      + unfold orders in *. cbn [pts]. rewrite map_app, Ho. rewrite Hl1 at 2. rewrite map_app. cbn [map].
        rewrite <- app_assoc. reflexivity.
      + right. split; [exact Ein|]. exists m, x. auto.
    - injection E2 as <- <-. split; [lia|]. split; [reflexivity|]. exists []. split; [now rewrite app_nil_r|].
      left. split; [reflexivity|]. apply andb_false_iff in Ein as [Ein|Ein]; [apply Z.leb_gt in Ein|apply Z.ltb_ge in Ein]; lia. }
  destruct H12 as (Hle12 & Hm12 & post & Ho2 & Hpost).
  (* step 1 analysed *)
  assert (H1 : maxlen trial1 = ml /\ exists pre, orders trial1 = rev pre ++ orders seg /\ ext_side i0 i2 first pre).
  { rewrite Hf0 in E1. destruct ((i0 <=? first) && (first <? i2)) eqn:Ein.
    - destruct (run_propagate fx ml (torigin seg) true first i0 i2 s) as [[[back okb] s3]|] eqn:Eb; [|discriminate].
      injection E1 as <- <-. apply in_range_b in Ein.
      destruct (run_propagate_short _ _ _ _ _ _ _ _ _ _ _ Eb) as (F1 & F2 & F3); [apply outb_false; lia|].
      destruct (paste_maxlen_torigin back seg true ml) as [M1 _]. split; [exact M1|].
      pose proof (paste_length_explicit back seg true ml) as PL.
      set (trial1 := paste back seg true (Some ml)) in *.
      assert (Hseg1 : (1 <= plen seg)%nat) by (unfold plen; rewrite Eseg; cbn; lia).
      assert (Hbshort : (plen back < ml)%nat) by lia.
      destruct (F3 Hbshort) as (m & x & Ho & Im & Hx).
      exists (m ++ [x]). split.
      + unfold trial1, orders. rewrite paste_untruncated.
        * unfold forw_part. rewrite map_app, map_rev, map_tl.
          change (map ford (pts back)) with (orders back). change (map ford (pts seg)) with (orders seg).
          rewrite Ho, Hoseg. cbn [tl].
          change (first :: m ++ [x]) with ([first] ++ (m ++ [x])). rewrite rev_app_distr. cbn [rev app].
          rewrite <- app_assoc. reflexivity.
        * rewrite forw_part_length. cbv iota in *. lia.
      + right. split; [exact Ein|]. exists m, x. auto.
    - injection E1 as <- <-. destruct (copy_orders 0 seg Hfit) as [A B]. split; [congruence|].
      exists []. split; [cbn; exact A|]. left. split; [reflexivity|].
      apply andb_false_iff in Ein as [Ein|Ein]; [apply Z.leb_gt in Ein|apply Z.ltb_ge in Ein]; lia. }
  destruct H1 as (Hm1 & pre & Ho1 & Hpre).
  split; [exact Hshort|]. split; [congruence|].
  (* the last frame of trial1 *)
  assert (Hfl : (post = [] -> True) /\ (ford fl = lastv)).
  { split; [auto|].
    assert (E : hd_error (rev (orders trial1)) = Some (ford fl)).
    { unfold orders. rewrite <- map_rev, Erl. reflexivity. }
    rewrite Ho1, rev_app_distr in E. destruct (rev (orders seg)) as [|y l]; [discriminate|].
    cbn in Hlast, E. congruence. }
  destruct Hfl as [_ Hfl]. rewrite Hfl in Hpost.
  exists pre, post. split; [|split; assumption].
  rewrite Ho2, Ho1, <- app_assoc. reflexivity.
Qed.

(* ================================================================== wire fencing: inversion of ACC *)

Definition wf_seg0 (e : ensemble) (old : path) (sg : nat * nat * nat) : path :=
  mkP (pts (fst (append_all (empty_path (maxlen old) 0) (seg_frames sg (pts old))))) (maxlen old) (torigin old).

Record wf_trace := mkWT {
  w_u : Q; w_ds : list Q; w_sg : nat * nat * nat; w_seg : path; w_succ : nat; w_s2 : src;
  w_trial : path; w_s3 : src; w_trial2 : path; w_w : Z; w_sp : side
}.

Definition wf_acc_facts (fx : bool) (e : ensemble) (scL scR : bool) (old : path) (s : src) (t : wf_trace) (r : result) : Prop :=
  s_draws s = w_u t :: w_ds t /\
  wf_nframes (e_i1 e) (cap_of e) (orders old) <> 0%nat /\
  wf_pick (e_i1 e) (cap_of e) (orders old) (w_u t) = Some (w_sg t) /\
  wf_jumps fx e (e_njumps e) (wf_seg0 e old (w_sg t)) 0%nat (mkS (w_ds t) (s_kicks s) (s_streams s) (s_ncall s))
    = Some (w_seg t, w_succ t, w_s2 t) /\
  w_succ t <> 0%nat /\
  extender fx e (w_seg t) (w_s2 t) = Some (true, w_trial t, ACC, w_s3 t) /\
  subt_acceptance e scL scR (w_trial t) = Some (true, w_trial2 t, w_w t) /\
  start_point (w_trial2 t) (e_i0 e) (e_i2 e) = Some (w_sp t) /\ sc_is scL scR (w_sp t) = true /\
  r = mkR true ACC (w_trial2 t) (mkG 9000 (w_succ t) (plen (w_trial2 t))) (w_w t) (w_s3 t).

Lemma wf_acc_inv fx e scL scR old s :
  r_status (wire_fencing fx e scL scR old s) = ACC ->
  exists t, wf_acc_facts fx e scL scR old s t (wire_fencing fx e scL scR old s).
Proof.
  unfold wire_fencing. intros H.
  destruct (Nat.eqb_spec (wf_nframes (e_i1 e) (cap_of e) (orders old)) 0) as [?|Hn]; [discriminate H|].
  destruct (s_draws s) as [|u ds] eqn:Ed; [discriminate H|].
  destruct (wf_pick (e_i1 e) (cap_of e) (orders old) u) as [sg|] eqn:Epick; [|discriminate H].
  fold (wf_seg0 e old sg) in H |- *.
  destruct (wf_jumps fx e (e_njumps e) (wf_seg0 e old sg) 0%nat _) as [[[seg succ] s2]|] eqn:Ej; [|discriminate H].
  destruct (Nat.eqb_spec succ 0) as [?|Hs]; [discriminate H|].
  destruct (extender fx e seg s2) as [[[[ok1 trial] st1] s3]|] eqn:Eext; [|discriminate H].
  pose proof Eext as Eext'. apply extender_status in Eext' as [(-> & -> & _)|(-> & -> & _)]; cbn [negb] in H |- *;
    [|discriminate H].
  destruct (subt_acceptance e scL scR trial) as [[[ok2 trial2] w]|] eqn:Esub; [|discriminate H].
  destruct ok2; cbn [negb] in H |- *; [|discriminate H].
  destruct (start_point trial2 (e_i0 e) (e_i2 e)) as [sp|] eqn:Esp; [|discriminate H].
  destruct (sc_is scL scR sp) eqn:Esc; [|discriminate H].
  exists (mkWT u ds sg seg succ s2 trial s3 trial2 w sp). unfold wf_acc_facts.
  cbn [w_u w_ds w_sg w_seg w_succ w_s2 w_trial w_s3 w_trial2 w_w w_sp]. repeat (split; [assumption || reflexivity|]).
  reflexivity.
Qed.

(* ================================================================== subt_acceptance *)

Lemma subt_acceptance_acc e scL scR trial trial2 w :
  subt_acceptance e scL scR trial = Some (true, trial2, w) ->
  (plen trial <= maxlen trial)%nat ->
  (orders trial2 = orders trial \/ orders trial2 = rev (orders trial)) /\
  (w = 0 \/ compute_weight (orders trial) (e_i0 e) (e_i1 e)
              (match e_move e with Mwf => cap_of e | _ => e_i2 e end) (e_move e) = Some w).
Proof.
  unfold subt_acceptance. intros H Hfit.
  set (c3 := match e_move e with Mwf => cap_of e | _ => e_i2 e end) in *.
  destruct (compute_weight (orders trial) (e_i0 e) (e_i1 e) c3 (e_move e)) as [w0|]; [|discriminate].
  destruct (start_point trial (e_i0 e) c3) as [sp|]; [|discriminate].
  destruct (sc_is scL scR sp); cbn [negb] in H.
  - destruct (start_point trial (e_i0 e) c3) as [sp1|]; [|discriminate].
    destruct (sc_is scL scR sp1); cbn [negb] in H; [|discriminate]. injection H as <- <-. auto.
  - destruct (start_point (reverse 0 trial true) (e_i0 e) c3) as [sp1|]; [|discriminate].
    destruct (sc_is scL scR sp1); cbn [negb] in H; [|discriminate]. injection H as <- <-.
    split; [right; now apply reverse_orders|left; reflexivity].
Qed.

(* ================================================================== shape of an accepted wire-fencing path *)

Definition not_ext (i0 i2 x : Z) : Prop := x < i0 \/ i2 <= x.

Lemma outb_not_ext i0 i2 x : outb i0 i2 x = true -> not_ext i0 i2 x.
Proof. intros H. apply outb_true in H. unfold not_ext. lia. Qed.

Lemma inside_all_weaken l r l' r' os : l' <= l -> r <= r' -> inside_all l r os -> inside_all l' r' os.
Proof. intros A B. unfold inside_all. apply Forall_impl. intros; lia. Qed.

Lemma inside_all_app l r a b : inside_all l r a -> inside_all l r b -> inside_all l r (a ++ b).
Proof. unfold inside_all. intros. apply Forall_app. auto. Qed.

Lemma inside_all_rev l r a : inside_all l r a -> inside_all l r (rev a).
Proof. unfold inside_all. apply Forall_rev. Qed.

(* first frame, interior, last frame *)
Definition fml (os : list Z) (f : Z) (mid : list Z) (l : Z) : Prop := os = f :: mid ++ [l].

Lemma fml_rev os f mid l : fml os f mid l -> fml (rev os) l (rev mid) f.
Proof.
  unfold fml. intros ->. change (f :: mid ++ [l]) with ([f] ++ mid ++ [l]).
  rewrite !rev_app_distr. cbn. reflexivity.
Qed.

Lemma core_fml i0 i2 xb M xf pre post :
  ext_side i0 i2 xb pre -> ext_side i0 i2 xf post -> inside_all i0 i2 M ->
  exists f mid l, fml (rev pre ++ (xb :: M ++ [xf]) ++ post) f mid l /\
                  not_ext i0 i2 f /\ not_ext i0 i2 l /\ inside_all i0 i2 mid.
Proof.
  intros Hpre Hpost HM. unfold fml.
  assert (I1 : forall x, i0 <= x < i2 -> inside_all i0 i2 [x]) by (intros x Hx; constructor; [lia|constructor]).
  destruct Hpre as [[-> Hb]|[Hb (m & x & -> & Im & Hx)]]; destruct Hpost as [[-> Hf]|[Hf (m' & x' & -> & Im' & Hx')]].
  - exists xb, M, xf. cbn. rewrite app_nil_r. repeat split; auto.
  - exists xb, (M ++ xf :: m'), x'. split; [cbn; rewrite <- !app_assoc; reflexivity|].
    split; [exact Hb|]. split; [now apply outb_not_ext|].
    apply inside_all_app; [exact HM|]. constructor; [lia|exact Im'].
  - exists x, (rev m ++ xb :: M), xf. split; [rewrite rev_app_distr; cbn; rewrite app_nil_r, <- !app_assoc; reflexivity|].
    split; [now apply outb_not_ext|]. split; [exact Hf|].
    apply inside_all_app; [now apply inside_all_rev|]. constructor; [lia|exact HM].
  - exists x, (rev m ++ xb :: M ++ xf :: m'), x'.
    split; [rewrite rev_app_distr; cbn; rewrite <- !app_assoc; cbn; rewrite <- !app_assoc; reflexivity|].
    split; [now apply outb_not_ext|]. split; [now apply outb_not_ext|].
    apply inside_all_app; [now apply inside_all_rev|]. constructor; [lia|].
    apply inside_all_app; [exact HM|]. constructor; [lia|exact Im'].
Qed.

Record wf_valid (fx : bool) (e : ensemble) (scL scR : bool) (r : result) : Prop := {
  (* the accepted sub-path, in the sub-ensemble (i1, i1, cap), and what was added on either side *)
  wv_core : exists a pre post,
      let core := rev pre ++ ao_list a ++ post in
      (orders (r_path r) = core \/ orders (r_path r) = rev core) /\
      ext_side (e_i0 e) (e_i2 e) (ao_xb a) pre /\ ext_side (e_i0 e) (e_i2 e) (ao_xf a) post /\
      outb (e_i1 e) (cap_of e) (ao_xb a) = true /\ outb (e_i1 e) (cap_of e) (ao_xf a) = true /\
      inside_all (e_i1 e) (cap_of e) (rev (ao_mb a) ++ ao_o a :: ao_mf a) /\
      e_i1 e <= ao_o a < cap_of e /\
      (e_scL e && e_scR e = false -> exists x y, In x (ao_list a) /\ In y (ao_list a) /\ x < e_i1 e <= y);
  wv_len : (plen (r_path r) < e_maxlength e)%nat;
  wv_start : exists first, hd_error (orders (r_path r)) = Some first /\
                           sc_is scL scR (classify (e_i0 e) (e_i2 e) first) = true;
  wv_flag : r_acc r = true /\ g_order (r_gen r) = 9000 /\ (1 <= g_a (r_gen r))%nat /\ g_b (r_gen r) = plen (r_path r)
}.

Lemma wf_acc_valid fx e scL scR old s :
  r_status (wire_fencing fx e scL scR old s) = ACC ->
  wf_valid fx e scL scR (wire_fencing fx e scL scR old s).
Proof.
  intros Hacc. destruct (wf_acc_inv _ _ _ _ _ _ Hacc) as (t & Hf).
  set (R := wire_fencing fx e scL scR old s) in *.
  destruct Hf as (Hd & Hn & Hpick & Hj & Hs & Hext & Hsub & Hsp & Hsc & HR).
  (* the segment is an accepted shooting path of the sub-ensemble *)
  destruct (wf_jumps_inv _ _ _ _ _ _ _ _ _ Hj) as (_ & Hseg & _).
  destruct Hseg as (segk & sk & Hst & Eseg); [left; lia|]. cbv zeta in Hst, Eseg.
  destruct (shoot_acc_valid _ _ _ _ _ _ _ _ _ _ _ _ _ Hst) as (a & V).
  set (sr := shoot fx (e_i1 e) (e_i1 e) (cap_of e) (e_scL e) (e_scR e) (e_maxlength e) true true true segk false sk) in *.
  destruct (sv_len _ _ _ _ _ _ _ _ _ _ _ _ _ _ _ V) as (L1 & L2 & L3).
  destruct (copy_orders 0 (r_path sr) ltac:(lia)) as [Co Cm]. rewrite <- Eseg in Co, Cm.
  rewrite (sv_orders _ _ _ _ _ _ _ _ _ _ _ _ _ _ _ V) in Co.
  assert (Hsegfit : (plen (w_seg t) <= maxlen (w_seg t))%nat).
  { unfold plen. rewrite <- (map_length ford). change (map ford (pts (w_seg t))) with (orders (w_seg t)).
    rewrite Co, <- (sv_orders _ _ _ _ _ _ _ _ _ _ _ _ _ _ _ V). unfold orders. rewrite map_length. fold (plen (r_path sr)). lia. }
  assert (Hi : e_i0 e <= e_i2 e).
  { unfold start_point in Hsp. destruct (Z.ltb_spec (e_i2 e) (e_i0 e)); [discriminate|lia]. }
  destruct (extender_acc _ _ _ _ _ _ (ao_xb a) (ao_xf a) Hext Hsegfit ltac:(congruence)) as (T1 & T2 & pre & post & To & Tpre & Tpost).
  { rewrite Co. apply hd_error_ao. } { rewrite Co. apply last_ao. } { exact Hi. }
  destruct (subt_acceptance_acc _ _ _ _ _ _ Hsub ltac:(lia)) as (So & _).
  assert (HRpath : r_path R = w_trial2 t) by (rewrite HR; reflexivity).
  assert (Hlen2 : plen (w_trial2 t) = plen (w_trial t)).
  { unfold plen. rewrite <- !(map_length ford). change (map ford (pts ?p)) with (orders p).
    destruct So as [->| ->]; [reflexivity|apply rev_length]. }
  constructor.
  - exists a, pre, post. cbv zeta. rewrite Co in To. rewrite HRpath, <- To.
    split; [exact So|]. split; [exact Tpre|]. split; [exact Tpost|].
    split; [apply outb_true; exact (sv_start_out _ _ _ _ _ _ _ _ _ _ _ _ _ _ _ V)|].
    split; [apply outb_true; exact (sv_end_out _ _ _ _ _ _ _ _ _ _ _ _ _ _ _ V)|].
    split; [exact (sv_inside _ _ _ _ _ _ _ _ _ _ _ _ _ _ _ V)|].
    split; [exact (sv_shot_inside _ _ _ _ _ _ _ _ _ _ _ _ _ _ _ V)|].
    exact (sv_cross _ _ _ _ _ _ _ _ _ _ _ _ _ _ _ V).
  - rewrite HRpath, Hlen2. exact T1.
  - rewrite HRpath. unfold start_point in Hsp. destruct (Z.ltb_spec (e_i2 e) (e_i0 e)); [discriminate|].
    destruct (orders (w_trial2 t)) as [|x l]; [discriminate|]. injection Hsp as Hsp.
    exists x. split; [reflexivity|]. now rewrite Hsp.
  - rewrite HR. cbn. repeat split; lia.
Qed.

(* ------------------------------------------------------------------ consequences *)

(* (i), (ii): the ends cannot be extended, everything in between is inside *)
Lemma wf_valid_fml fx e scL scR r :
  wf_valid fx e scL scR r -> e_i0 e <= e_i1 e -> cap_of e <= e_i2 e ->
  exists f mid l, fml (orders (r_path r)) f mid l /\
    not_ext (e_i0 e) (e_i2 e) f /\ not_ext (e_i0 e) (e_i2 e) l /\ inside_all (e_i0 e) (e_i2 e) mid.
Proof.
  intros V H01 Hc2. destruct (wv_core _ _ _ _ _ V) as (a & pre & post & Ho & Epre & Epost & _ & _ & Iin & _ & _).
  cbv zeta in Ho.
  destruct (core_fml (e_i0 e) (e_i2 e) (ao_xb a) (rev (ao_mb a) ++ ao_o a :: ao_mf a) (ao_xf a) pre post Epre Epost)
    as (f & mid & l & Hfml & Nf & Nl & Im).
  { eapply inside_all_weaken; [| |exact Iin]; lia. }
  assert (Eao : ao_list a = ao_xb a :: (rev (ao_mb a) ++ ao_o a :: ao_mf a) ++ [ao_xf a]).
  { unfold ao_list. cbn. f_equal. rewrite <- app_assoc. reflexivity. }
  rewrite <- Eao in Hfml.
  destruct Ho as [-> | ->].
  - exists f, mid, l. auto.
  - exists l, (rev mid), f. split; [now apply fml_rev|]. split; [exact Nl|]. split; [exact Nf|]. now apply inside_all_rev.
Qed.

(* (iii) *)
Lemma wf_valid_cross fx e scL scR r :
  wf_valid fx e scL scR r -> e_scL e && e_scR e = false ->
  exists x y, In x (orders (r_path r)) /\ In y (orders (r_path r)) /\ x < e_i1 e <= y.
Proof.
  intros V Hsc. destruct (wv_core _ _ _ _ _ V) as (a & pre & post & Ho & _ & _ & _ & _ & _ & _ & Hc).
  destruct (Hc Hsc) as (x & y & Hx & Hy & Hxy). cbv zeta in Ho.
  assert (Hin : forall z, In z (ao_list a) -> In z (orders (r_path r))).
  { intros z Hz. assert (In z (rev pre ++ ao_list a ++ post)) by (apply in_or_app; right; apply in_or_app; now left).
    destruct Ho as [-> | ->]; [assumption|]. apply -> in_rev. exact H. }
  exists x, y. auto.
Qed.

(* ================================================================== (vii) weights *)

(* a stretch  a, mid..., b  with a, b outside [l, r), mid inside and not right -> right carries weight *)
Lemma wf_weight_embedded l r pre a mid b post :
  mid <> [] -> Forall (fun o => l <= o < r) mid ->
  (a < l \/ r <= a) -> (b < l \/ r <= b) -> ~ (r <= a /\ r <= b) ->
  (0 < wf_nframes l r (pre ++ a :: mid ++ b :: post))%nat.
Proof.
  intros Hne Hmid Ha Hb Hab. apply wf_weight_pos_iff.
  exists (S (length pre)). exists (length pre), (length pre + length mid + 1)%nat, (length mid).
  assert (Hlm : (1 <= length mid)%nat) by (destruct mid; [congruence|cbn; lia]).
  split; [|lia].
  split; [reflexivity|]. split; [exact Hlm|]. split.
  - exists a, b. split.
    + rewrite nth_error_app2 by lia. now rewrite Nat.sub_diag.
    + split; [|tauto].
      rewrite nth_error_app2 by lia. replace (length pre + length mid + 1 - length pre)%nat with (S (length mid)) by lia.
      cbn [nth_error]. rewrite nth_error_app2 by lia. now rewrite Nat.sub_diag.
  - intros j Hj. rewrite nth_error_app2 by lia.
    destruct (j - length pre)%nat as [|k] eqn:Ek; [lia|]. cbn [nth_error].
    rewrite nth_error_app1 by lia.
    destruct (nth_error mid k) as [oj|] eqn:En; [|apply nth_error_None in En; lia].
    exists oj. split; [reflexivity|]. rewrite Forall_forall in Hmid. apply Hmid. eapply nth_error_In; eauto.
Qed.

Lemma wf_valid_weight fx e scL scR r :
  wf_valid fx e scL scR r -> e_scL e && e_scR e = false ->
  (forall o, In o (orders (r_path r)) -> o <> cap_of e) ->
  (0 < wf_nframes (e_i1 e) (cap_of e) (orders (r_path r)))%nat.
Proof.
  intros V Hsc Hguard.
  destruct (wv_core _ _ _ _ _ V) as (a & pre & post & Ho & _ & _ & Xb & Xf & Iin & Hshot & Hc).
  cbv zeta in Ho. set (M := rev (ao_mb a) ++ ao_o a :: ao_mf a) in *.
  assert (Eao : rev pre ++ ao_list a ++ post = rev pre ++ ao_xb a :: M ++ ao_xf a :: post).
  { unfold ao_list, M. cbn. rewrite <- !app_assoc. cbn. rewrite <- !app_assoc. reflexivity. }
  assert (Hin : forall z, In z (rev pre ++ ao_list a ++ post) -> In z (orders (r_path r))).
  { intros z Hz. destruct Ho as [-> | ->]; [assumption|]. apply -> in_rev. exact Hz. }
  assert (W : (0 < wf_nframes (e_i1 e) (cap_of e) (rev pre ++ ao_list a ++ post))%nat).
  { rewrite Eao. apply wf_weight_embedded.
    - unfold M. destruct (rev (ao_mb a)); discriminate.
    - unfold inside_all in Iin. rewrite Forall_forall in *. intros o Hoin. specialize (Iin o Hoin).
      assert (o <> cap_of e).
      { apply Hguard, Hin. rewrite Eao. apply in_or_app. right. right. apply in_or_app. now left. }
      lia.
    - apply outb_true in Xb. lia.
    - apply outb_true in Xf. lia.
    - destruct (Hc Hsc) as (x & _ & Hx & _ & Hlt & _).
      assert (Hx' : x = ao_xb a \/ In x M \/ x = ao_xf a).
      { unfold ao_list in Hx. fold M in Hx. destruct Hx as [<-|Hx]; [auto|].
        change (rev (ao_mb a) ++ ao_o a :: ao_mf a ++ [ao_xf a]) with (rev (ao_mb a) ++ (ao_o a :: ao_mf a) ++ [ao_xf a]) in Hx.
        rewrite app_assoc in Hx. apply in_app_or in Hx as [Hx|[<-|[]]]; auto. }
      unfold inside_all in Iin. rewrite Forall_forall in Iin.
      destruct Hx' as [->|[Hm| ->]]; [lia|specialize (Iin x Hm); lia|lia]. }
  destruct Ho as [-> | ->]; [exact W|]. now rewrite wf_weight_reverse.
Qed.

Lemma compute_weight_wf_pos ords i0 i1 c w :
  compute_weight ords i0 i1 c Mwf = Some w -> (0 < wf_nframes i1 c ords)%nat -> 0 < w.
Proof.
  unfold compute_weight. intros H Hp.
  destruct (start_point _ i0 c) as [s|]; [|discriminate]. destruct (end_point _ i0 c) as [e|]; [|discriminate].
  injection H as <-. assert (Hz : 0 < Z.of_nat (wf_nframes i1 c ords)) by lia. destruct (Z.of_nat (wf_nframes i1 c ords)); destruct s, e; cbv beta iota; lia.
Qed.

(* entry k of the weight vector of a plus path whose own move is shooting *)
Lemma own_weight_plus_sh ords i0' irest mvs lm1 cap v k lk mv :
  calc_cv_vector ords (i0' :: irest) mvs lm1 cap false = Some v ->
  (S k < length (i0' :: irest))%nat -> nth_error (i0' :: irest) k = Some lk ->
  nth_error mvs (S k) = Some mv -> mv <> Mwf ->
  (exists o, In o ords /\ lk <= o) -> nth_error v k = Some 1.
Proof.
  intros Hv Hk Hlk Hmv Hne (o & Hin & Hle).
  destruct (cv_vector_shape _ _ _ _ _ _ _ Hv) as (_ & _ & Hent).
  destruct (Hent k lk Hk Hlk) as (mv' & b & Hmv' & Hb & He).
  rewrite Hmv in Hmv'. injection Hmv' as <-. rewrite Hb. f_equal.
  unfold cv_entry in He. destruct mv; [|congruence|];
    (destruct He as [[-> _]|[_ Hall]]; [reflexivity|specialize (Hall o Hin); lia]).
Qed.

Lemma own_weight_plus_wf ords i0' irest mvs lm1 cap v k lk :
  calc_cv_vector ords (i0' :: irest) mvs lm1 cap false = Some v ->
  (S k < length (i0' :: irest))%nat -> nth_error (i0' :: irest) k = Some lk ->
  nth_error mvs (S k) = Some Mwf ->
  (0 < wf_nframes lk (match cap with Some c => c | None => last (i0' :: irest) i0' end) ords)%nat ->
  exists b, nth_error v k = Some b /\ 0 < b.
Proof.
  intros Hv Hk Hlk Hmv Hpos.
  destruct (cv_vector_shape _ _ _ _ _ _ _ Hv) as (_ & _ & Hent).
  destruct (Hent k lk Hk Hlk) as (mv' & b & Hmv' & Hb & He).
  rewrite Hmv in Hmv'. injection Hmv' as <-. exists b. split; [exact Hb|].
  unfold cv_entry in He. eapply compute_weight_wf_pos; eauto.
Qed.

Lemma own_weight_minus ords intfs mvs lm1 cap l :
  (lm1 = Some l \/ (lm1 = None /\ hd_error intfs = Some l)) ->
  (exists o, In o ords /\ l <= o) ->
  calc_cv_vector ords intfs mvs lm1 cap true = Some [1].
Proof.
  intros Hl (o & Hin & Hle).
  assert (Hne : ords <> []) by (intros ->; destruct Hin).
  destruct (cv_vector_minus ords intfs mvs lm1 cap l Hne Hl) as (b & -> & [[-> _]|[_ Hall]]); [reflexivity|].
  specialize (Hall o Hin). lia.
Qed.

(* ------------------------------------------------------------------ run_md: the accepted path has non-zero own weight *)

Lemma shoot_valid_reaches fx i0 i1 i2 eL eR maxlength allowmax pL pR old old_ld s r a :
  shoot_valid fx i0 i1 i2 eL eR maxlength allowmax pL pR old old_ld s r a ->
  (exists o, In o (orders (r_path r)) /\ i0 <= o) /\
  (eL && eR = false -> exists o, In o (orders (r_path r)) /\ i1 <= o) /\
  (i0 <= i1 <= i2 -> pL = false -> exists o, In o (orders (r_path r)) /\ i2 < o).
Proof.
  intros V. rewrite (sv_orders _ _ _ _ _ _ _ _ _ _ _ _ _ _ _ V).
  split; [|split].
  - exists (ao_o a). split; [|apply (sv_shot_inside _ _ _ _ _ _ _ _ _ _ _ _ _ _ _ V)].
    unfold ao_list. right. apply in_or_app. right. now left.
  - intros Hb. destruct (sv_cross _ _ _ _ _ _ _ _ _ _ _ _ _ _ _ V Hb) as (x & y & _ & Hy & Hxy). exists y. split; [exact Hy|lia].
  - intros Hi Hp. destruct (sv_no_left _ _ _ _ _ _ _ _ _ _ _ _ _ _ _ V Hi Hp) as [A _].
    exists (ao_xb a). split; [now left|exact A].
Qed.

Lemma run_md_acc fx e old old_ld s intfs mvs lm1 capg minus :
  r_status (select_shoot fx e old old_ld s) = ACC ->
  run_md fx e old old_ld s intfs mvs lm1 capg minus =
  (select_shoot fx e old old_ld s, r_path (select_shoot fx e old old_ld s),
   calc_cv_vector (orders (r_path (select_shoot fx e old old_ld s))) intfs mvs lm1 capg minus).
Proof. intros H. unfold run_md. rewrite H. reflexivity. Qed.

Lemma run_md_weight_sh_plus fx e old old_ld s i0' irest mvs lm1 capg k v :
  e_move e = Msh -> e_scL e && e_scR e = false ->
  r_status (select_shoot fx e old old_ld s) = ACC ->
  snd (run_md fx e old old_ld s (i0' :: irest) mvs lm1 capg false) = Some v ->
  (S k < length (i0' :: irest))%nat -> nth_error (i0' :: irest) k = Some (e_i1 e) ->
  nth_error mvs (S k) = Some Msh ->
  nth_error v k = Some 1.
Proof.
  intros Hmv Hsc Hacc Hw Hk Hlk Hm. rewrite run_md_acc in Hw by exact Hacc. cbn [snd] in Hw.
  unfold select_shoot in Hacc, Hw. rewrite Hmv in Hacc, Hw.
  destruct (shoot_acc_valid _ _ _ _ _ _ _ _ _ _ _ _ _ Hacc) as (a & V).
  destruct (shoot_valid_reaches _ _ _ _ _ _ _ _ _ _ _ _ _ _ _ V) as (_ & H1 & _).
  eapply own_weight_plus_sh; eauto. discriminate.
Qed.

Lemma run_md_weight_sh_minus fx e old old_ld s intfs mvs lm1 capg l :
  e_move e = Msh ->
  r_status (select_shoot fx e old old_ld s) = ACC ->
  (lm1 = Some l \/ (lm1 = None /\ hd_error intfs = Some l)) ->
  (l <= e_i0 e \/ (l <= e_i2 e /\ e_scL e = false /\ e_i0 e <= e_i1 e <= e_i2 e)) ->
  snd (run_md fx e old old_ld s intfs mvs lm1 capg true) = Some [1].
Proof.
  intros Hmv Hacc Hl Hcase. rewrite run_md_acc by exact Hacc. cbn [snd].
  unfold select_shoot in Hacc |- *. rewrite Hmv in Hacc |- *.
  destruct (shoot_acc_valid _ _ _ _ _ _ _ _ _ _ _ _ _ Hacc) as (a & V).
  destruct (shoot_valid_reaches _ _ _ _ _ _ _ _ _ _ _ _ _ _ _ V) as ((o & Ho & Hle) & _ & H2).
  apply own_weight_minus with (l := l); [exact Hl|].
  destruct Hcase as [Hc|(Hc & HpL & Hi)].
  - exists o. split; [exact Ho|lia].
  - destruct (H2 Hi HpL) as (o2 & Ho2 & Hlt). exists o2. split; [exact Ho2|lia].
Qed.

Lemma run_md_weight_wf_plus fx e old old_ld s i0' irest mvs lm1 capg k v :
  e_move e = Mwf -> e_scL e && e_scR e = false ->
  r_status (select_shoot fx e old old_ld s) = ACC ->
  snd (run_md fx e old old_ld s (i0' :: irest) mvs lm1 capg false) = Some v ->
  (S k < length (i0' :: irest))%nat -> nth_error (i0' :: irest) k = Some (e_i1 e) ->
  nth_error mvs (S k) = Some Mwf ->
  match capg with Some c => c | None => last (i0' :: irest) i0' end = cap_of e ->
  (forall o, In o (orders (r_path (select_shoot fx e old old_ld s))) -> o <> cap_of e) ->
  exists b, nth_error v k = Some b /\ 0 < b.
Proof.
  intros Hmv Hsc Hacc Hw Hk Hlk Hm Hcap Hguard. rewrite run_md_acc in Hw by exact Hacc. cbn [snd] in Hw.
  unfold select_shoot in Hacc, Hw, Hguard. rewrite Hmv in Hacc, Hw, Hguard.
  pose proof (wf_acc_valid _ _ _ _ _ _ Hacc) as V.
  eapply own_weight_plus_wf; eauto. rewrite Hcap.
  eapply wf_valid_weight; eauto.
Qed.

(* ------------------------------------------------------------------ the guard is needed: witness *)

Definition zw_ens : ensemble := mkE 1 2 5 true false Mwf 20 false (Some 3) 1.
Definition zw_old : path := mkP [mkF 0 0 false 0%nat; mkF 2 1 false 0%nat; mkF 0 2 false 0%nat] 20%nat 0.
Definition zw_src : src := mkS [0#1; 0#1]%Q [] [[3; 1]; [4]; [0]; [6]] 0%nat.

Lemma wf_zero_weight_witness :
  let r := wire_fencing true zw_ens true false zw_old zw_src in
  r_status r = ACC /\ orders (r_path r) = [0; 1; 3; 2; 4; 6] /\
  wf_nframes (e_i1 zw_ens) (cap_of zw_ens) (orders (r_path r)) = 0%nat /\
  compute_weight (orders (r_path r)) 1 2 3 Mwf = Some 0.
Proof. vm_compute. repeat split; reflexivity. Qed.

(* ================================================================== explicit statements (restated in theorems/C09.v) *)

Lemma acc_valid_shoot_orders fx i0 i1 i2 eL eR maxlength allowmax pL pR old old_ld s :
  let R := shoot fx i0 i1 i2 eL eR maxlength allowmax pL pR old old_ld s in
  r_status R = ACC ->
  exists xb mb o mf xf,
    orders (r_path R) = xb :: rev mb ++ o :: mf ++ [xf] /\
    (* (i) *)
    (xb < i0 \/ i2 < xb) /\ (xf < i0 \/ i2 < xf) /\
    in_sc pL pR (Some (classify i0 i2 xb)) = true /\
    (i0 <= i1 <= i2 -> pL = false -> i2 < xb /\ i2 < xf) /\
    (* (ii) *)
    Forall (fun x => i0 <= x <= i2) (rev mb ++ o :: mf) /\ i0 <= o < i2 /\
    (* (iii) *)
    (eL && eR = false ->
       exists x y, In x (orders (r_path R)) /\ In y (orders (r_path R)) /\ x < i1 <= y) /\
    (* (iv) *)
    (3 <= plen (r_path R) <= maxlength)%nat /\ maxlen (r_path R) = maxlength /\
    (old_ld || allowmax = false ->
       exists u rr ds, s_draws s = u :: rr :: ds /\ 0 < Qnum rr /\
         (Z.of_nat (plen (r_path R)) - 2) * Qnum rr <= (Z.of_nat (plen old) - 2) * Zpos (Qden rr)) /\
    (* (v) *)
    g_b (r_gen R) = S (length mb) /\ g_order (r_gen R) = o /\
    (exists u ds sp, s_draws s = u :: ds /\ g_a (r_gen R) = shooting_index u (plen old) /\
       (1 <= g_a (r_gen R) < plen old)%nat /\
       nth_error (pts old) (g_a (r_gen R)) = Some sp /\ o = shot_order s sp) /\
    torigin (r_path R) = torigin old + Z.of_nat (g_a (r_gen R)) - Z.of_nat (g_b (r_gen R)) /\
    r_acc R = true /\ r_weight R = 1.
Proof.
  intros R Hacc. destruct (shoot_acc_valid _ _ _ _ _ _ _ _ _ _ _ _ _ Hacc) as (a & V). fold R in V.
  exists (ao_xb a), (ao_mb a), (ao_o a), (ao_mf a), (ao_xf a).
  split; [exact (sv_orders _ _ _ _ _ _ _ _ _ _ _ _ _ _ _ V)|].
  split; [exact (sv_start_out _ _ _ _ _ _ _ _ _ _ _ _ _ _ _ V)|].
  split; [exact (sv_end_out _ _ _ _ _ _ _ _ _ _ _ _ _ _ _ V)|].
  split; [exact (sv_start_side _ _ _ _ _ _ _ _ _ _ _ _ _ _ _ V)|].
  split; [exact (sv_no_left _ _ _ _ _ _ _ _ _ _ _ _ _ _ _ V)|].
  split; [exact (sv_inside _ _ _ _ _ _ _ _ _ _ _ _ _ _ _ V)|].
  split; [exact (sv_shot_inside _ _ _ _ _ _ _ _ _ _ _ _ _ _ _ V)|].
  split; [rewrite (sv_orders _ _ _ _ _ _ _ _ _ _ _ _ _ _ _ V); exact (sv_cross _ _ _ _ _ _ _ _ _ _ _ _ _ _ _ V)|].
  destruct (sv_len _ _ _ _ _ _ _ _ _ _ _ _ _ _ _ V) as (L1 & L2 & L3).
  split; [lia|]. split; [exact L3|].
  split; [exact (sv_len_drawn _ _ _ _ _ _ _ _ _ _ _ _ _ _ _ V)|].
  destruct (sv_shot_at _ _ _ _ _ _ _ _ _ _ _ _ _ _ _ V) as (G1 & _).
  destruct (sv_index _ _ _ _ _ _ _ _ _ _ _ _ _ _ _ V) as (u & ds & sp & I1 & I2 & I3 & I4 & I5 & I6 & I7).
  split; [exact G1|]. split; [exact I6|].
  split; [exists u, ds, sp; auto|]. split; [exact I7|].
  exact (sv_flag _ _ _ _ _ _ _ _ _ _ _ _ _ _ _ V).
Qed.

Lemma acc_valid_shoot_frames fx i0 i1 i2 eL eR maxlength allowmax pL pR old old_ld s :
  let R := shoot fx i0 i1 i2 eL eR maxlength allowmax pL pR old old_ld s in
  r_status R = ACC ->
  exists sb sf rest,
    s_streams s = sb :: sf :: rest /\
    let jb := g_b (r_gen R) in
    let o := g_order (r_gen R) in
    (jb < plen (r_path R))%nat /\
    nth_error (pts (r_path R)) jb = Some (eng_frame (s_ncall s) true 0 o) /\
    (forall p, (p <= jb)%nat ->
       nth_error (pts (r_path R)) p =
       option_map (eng_frame (s_ncall s) true (jb - p)) (nth_error (o :: sb) (jb - p))) /\
    (forall p, (jb < p < plen (r_path R))%nat ->
       nth_error (pts (r_path R)) p =
       option_map (eng_frame (S (s_ncall s)) false (p - jb)) (nth_error (o :: sf) (p - jb))) /\
    (forall p, (p < plen (r_path R))%nat -> nth_error (pts (r_path R)) p <> None).
Proof.
  intros R Hacc. destruct (shoot_acc_valid _ _ _ _ _ _ _ _ _ _ _ _ _ Hacc) as (a & V). fold R in V.
  destruct (sv_time _ _ _ _ _ _ _ _ _ _ _ _ _ _ _ V) as (sb & sf & rest & Es & T1 & T2 & T3).
  destruct (sv_index _ _ _ _ _ _ _ _ _ _ _ _ _ _ _ V) as (u & ds & sp & _ & _ & _ & _ & _ & I6 & _).
  destruct (sv_shot_at _ _ _ _ _ _ _ _ _ _ _ _ _ _ _ V) as (G1 & G2).
  destruct (sv_len _ _ _ _ _ _ _ _ _ _ _ _ _ _ _ V) as (L1 & L2 & L3).
  exists sb, sf, rest. split; [exact Es|]. cbv zeta. rewrite I6.
  assert (Hlt : (g_b (r_gen R) < plen (r_path R))%nat).
  { unfold plen. rewrite <- (map_length ford). change (map ford (pts (r_path R))) with (orders (r_path R)).
    apply nth_error_Some. rewrite G2. discriminate. }
  split; [exact Hlt|]. split.
  - rewrite (T1 (g_b (r_gen R))) by lia. rewrite Nat.sub_diag. reflexivity.
  - split; [exact T1|]. split; [exact T2|exact T3].
Qed.

Lemma acc_valid_wf fx e scL scR old s :
  let R := wire_fencing fx e scL scR old s in
  r_status R = ACC ->
  let os := orders (r_path R) in
  let i0 := e_i0 e in let i1 := e_i1 e in let i2 := e_i2 e in let cap := cap_of e in
  (* (iv) *)
  (plen (r_path R) < e_maxlength e)%nat /\
  (* (i) start side = the single letter of start_cond *)
  (exists first, hd_error os = Some first /\ sc_is scL scR (classify i0 i2 first) = true) /\
  (* (i), (ii) neither end can be extended, everything in between is inside *)
  (i0 <= i1 -> cap <= i2 ->
     exists f mid l, os = f :: mid ++ [l] /\ (f < i0 \/ i2 <= f) /\ (l < i0 \/ i2 <= l) /\
                     Forall (fun x => i0 <= x <= i2) mid) /\
  (* (iii) *)
  (e_scL e && e_scR e = false -> exists x y, In x os /\ In y os /\ x < i1 <= y) /\
  (* (vii) *)
  (e_scL e && e_scR e = false -> (forall o, In o os -> o <> cap) -> (0 < wf_nframes i1 cap os)%nat) /\
  r_acc R = true.
Proof.
  intros R Hacc. pose proof (wf_acc_valid _ _ _ _ _ _ Hacc) as V. fold R in V. cbv zeta.
  split; [exact (wv_len _ _ _ _ _ V)|]. split; [exact (wv_start _ _ _ _ _ V)|].
  split; [intros A B; exact (wf_valid_fml _ _ _ _ _ V A B)|].
  split; [exact (wf_valid_cross _ _ _ _ _ V)|].
  split; [exact (wf_valid_weight _ _ _ _ _ V)|].
  apply (wv_flag _ _ _ _ _ V).
Qed.

Lemma reject_untouched fx e old old_ld s intfs mvs lm1 capg minus :
  r_status (select_shoot fx e old old_ld s) <> ACC ->
  run_md fx e old old_ld s intfs mvs lm1 capg minus = (select_shoot fx e old old_ld s, old, None).
Proof.
  intros H. unfold run_md. destruct (r_status (select_shoot fx e old old_ld s)); try reflexivity. congruence.
Qed.

Lemma accept_rule_old_refuted :
  exists i0 i1 i2 eL eR maxlength pL pR old s u rr ds sp sb sf rest jb jf,
    s_draws s = u :: rr :: ds /\ 0 < Qnum rr /\ (3 <= plen old)%nat /\
    nth_error (pts old) (shooting_index u (plen old)) = Some sp /\
    i0 <= shot_order s sp < i2 /\ s_streams s = sb :: sf :: rest /\
    first_out i0 i2 (shot_order s sp :: sb) = Some jb /\ first_out i0 i2 (shot_order s sp :: sf) = Some jf /\
    (jb + jf + 1 <= maxlength)%nat /\
    trial_valid i0 i1 i2 eL eR pL pR (trial_orders (shot_order s sp) sb sf jb jf) /\
    (rr <= (Z.of_nat (plen old) - 2) # Z.to_pos (Z.of_nat (jb + jf + 1) - 2))%Q /\
    r_status (shoot false i0 i1 i2 eL eR maxlength false pL pR old false s) = FTL /\
    r_status (shoot true i0 i1 i2 eL eR maxlength false pL pR old false s) = ACC.
Proof.
  exists 1, 3, 4, true, false, 100%nat, true, false, l11_old, l11_src, (0#1)%Q, (1#2)%Q, [],
         (mkF 2 1 false 0%nat), [0], [2;2;2;2;2;2;2;2;2;5], [], 1%nat, 10%nat.
  repeat match goal with |- _ /\ _ => split end; try (vm_compute; reflexivity); try (vm_compute; lia).
  - vm_compute. discriminate.
  - unfold trial_valid. split; [exists 0; vm_compute; split; reflexivity|vm_compute; reflexivity].
  - vm_compute. discriminate.
Qed.

Lemma wf_zero_weight_refuted :
  exists e scL scR old s,
    let R := wire_fencing true e scL scR old s in
    r_status R = ACC /\ e_scL e && e_scR e = false /\ e_i0 e <= e_i1 e /\ cap_of e <= e_i2 e /\
    In (cap_of e) (orders (r_path R)) /\
    wf_nframes (e_i1 e) (cap_of e) (orders (r_path R)) = 0%nat.
Proof.
  exists zw_ens, true, false, zw_old, zw_src. vm_compute.
  repeat split; try reflexivity; try discriminate. right; right; left; reflexivity.
Qed.
