(* C13: the TRR theorems of proofs/ReadersP.v instantiated with the constants of
   infretis/classes/engines/gromacs.py (gen/ParamsC13.v, regenerated from the source on every
   run): TRR_HEAD_SIZE and the number of bytes read_trr_header consumes for a header in single
   or double precision. *)
From Coq Require Import ZArith List Bool Lia.
Import ListNotations.
From Inf Require Import gen.ParamsC13 model.ReadersM proofs.ReadersP.
Open Scope Z_scope.

Lemma trr_header_fits h :
  h = trr_header_bytes_single \/ h = trr_header_bytes_double -> 0 < h /\ h <= trr_head_size.
Proof. intros [-> | ->]; split; solve [reflexivity | discriminate]. Qed.

Theorem trr_gromacs_constants : forall h lay,
  h = trr_header_bytes_single \/ h = trr_header_bytes_double -> lay_ok h lay ->
  forall sizes, Forall (fun s => s <= layout_size lay) sizes ->
  t_bad (fst (trr_run trr_head_size lay trr_init sizes)) = false /\
  Forall (ev_safe h lay) (snd (trr_run trr_head_size lay trr_init sizes)) /\
  (exists k, (k <= length lay)%nat /\ yields (snd (trr_run trr_head_size lay trr_init sizes)) = seq 0 k) /\
  (let st := fst (trr_run trr_head_size lay trr_init sizes) in
   t_pend st = None ->
   fst (trr_finish lay st (layout_size lay)) = layout_size lay /\
   Forall (ev_safe h lay) (snd (trr_finish lay st (layout_size lay))) /\
   yields (snd (trr_run trr_head_size lay trr_init sizes) ++ snd (trr_finish lay st (layout_size lay))) =
   seq 0 (length lay)).
Proof.
  intros h lay Hh Hlay sizes Hs.
  destruct (trr_header_fits h Hh) as [H0 H1].
  destruct (trr_never_reads_past_size trr_head_size h lay H0 H1 Hlay sizes Hs) as (A & B & C).
  split; [exact A|]. split; [exact B|]. split; [exact C|].
  exact (trr_quiescent_complete trr_head_size h lay H0 H1 Hlay sizes Hs).
Qed.
