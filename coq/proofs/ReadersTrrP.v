(* C13: the TRR theorems of proofs/ReadersP.v instantiated with the constants of
   infretis/classes/engines/gromacs.py (gen/ParamsC13.v, regenerated from the source on every
   run): TRR_HEAD_SIZE and the number of bytes read_trr_header consumes for a header in single
   or double precision. *)
From Coq Require Import ZArith List Bool Lia.
Import ListNotations.
From Inf Require Import gen.ParamsC13 model.ReadersM proofs.ReadersP.
Open Scope Z_scope.

Lemma trr_header_fits h :
  h = trr_header_bytes_single \/ h = trr_header_bytes_double -> 0 < h /\ h <= trr_head_size.
Proof. intros [-> | ->]; split; solve [reflexivity | discriminate]. Qed.

Theorem trr_gromacs_constants : forall h lay,
  h = trr_header_bytes_single \/ h = trr_header_bytes_double -> lay_ok h lay ->
  forall sizes, Forall (fun s => s <= layout_size lay) sizes ->
  t_bad (fst (trr_run trr_head_size lay trr_init sizes)) = false /\
  Forall (ev_safe h lay) (snd (trr_run trr_head_size lay trr_init sizes)) /\
  (exists k, (k <= length lay)%nat /\ yields (snd (trr_run trr_head_size lay trr_init sizes)) = seq 0 k) /\
  (let st := fst (trr_run trr_head_size lay trr_init sizes) in
   t_pend st = None ->
   fst (trr_finish lay st (layout_size lay)) = layout_size lay /\
   Forall (ev_safe h lay) (snd (trr_finish lay st (layout_size lay))) /\
   yields (snd (trr_run trr_head_size lay trr_init sizes) ++ snd (trr_finish lay st (layout_size lay))) =
   seq 0 (length lay)).
Proof.
  intros h lay Hh Hlay sizes Hs.
  destruct (trr_header_fits h Hh) as [H0 H1].
  destruct (trr_never_reads_past_size trr_head_size h lay H0 H1 Hlay sizes Hs) as (A & B & C).
  split; [exact A|]. split; [exact B|]. split; [exact C|].
  exact (trr_quiescent_complete trr_head_size h lay H0 H1 Hlay sizes Hs).
Qed.

(* ------------------------------------------------------------------ every interleaving of
   the writer (growth of the file, exit with code 0) with every observation (check_poll /
   getsize) of get_gromacs_frames *)

Lemma trr_drive_cons rc head lay m s e r :
  trr_drive rc head lay m ((s, e) :: r) =
  (fst (trr_drive rc head lay (fst (trr_step rc head lay m s e)) r),
   snd (trr_step rc head lay m s e) ++ snd (trr_drive rc head lay (fst (trr_step rc head lay m s e)) r)).
Proof.
  cbn [trr_drive]. destruct (trr_step rc head lay m s e) as [m1 ev1]. cbn [fst snd].
  destruct (trr_drive rc head lay m1 r) as [m2 ev2]. reflexivity.
Qed.

Lemma trr_drive_app rc head lay : forall a b m,
  trr_drive rc head lay m (a ++ b) =
  (fst (trr_drive rc head lay (fst (trr_drive rc head lay m a)) b),
   snd (trr_drive rc head lay m a) ++ snd (trr_drive rc head lay (fst (trr_drive rc head lay m a)) b)).
Proof.
  induction a as [|[s e] a IH]; intros b m.
  - cbn [app trr_drive fst snd]. now destruct (trr_drive rc head lay m b).
  - rewrite <- app_comm_cons, !trr_drive_cons, IH. cbn [fst snd]. now rewrite app_assoc.
Qed.

Lemma trr_drive_done rc head lay st : forall obs,
  trr_drive rc head lay (mkM PcDone st) obs = (mkM PcDone st, []).
Proof.
  induction obs as [|[s e] obs IH]; [reflexivity|].
  rewrite trr_drive_cons. cbn [trr_step m_pc fst snd]. now rewrite IH.
Qed.

Section TrrSched.
Variables head h : Z.
Variable lay : layout.
Hypothesis h_pos : 0 < h.
Hypothesis h_head : h <= head.
Hypothesis Hlay : lay_ok h lay.
Local Notation n := (length lay).
Local Notation total := (layout_size lay).

Lemma off_lt_S k : (k < n)%nat -> off lay k < off lay (S k).
Proof.
  intros Hk. destruct (nth_ex h lay Hlay k Hk) as (d & Hn & Hd). rewrite (off_S h lay k d Hn). lia.
Qed.

Lemma off_mono : forall k j, (j <= k)%nat -> (k <= n)%nat -> off lay j <= off lay k.
Proof.
  induction k as [|k IH]; intros j Hj Hk.
  - replace j with 0%nat by lia. lia.
  - destruct (Nat.eq_dec j (S k)) as [->|Hne]; [lia|].
    pose proof (IH j ltac:(lia) ltac:(lia)). pose proof (off_lt_S k ltac:(lia)). lia.
Qed.

Lemma off_strict j k : (j < k)%nat -> (k <= n)%nat -> off lay j < off lay k.
Proof.
  intros Hj Hk. pose proof (off_lt_S j ltac:(lia)). pose proof (off_mono k (S j) ltac:(lia) Hk). lia.
Qed.

(* [fin] bytes are on disk in the end; exactly the first [kf] frames lie completely inside *)
Variable fin : Z.
Variable kf : nat.
Hypothesis Hfin_tot : fin <= total.
Hypothesis Hkf : (kf <= n)%nat.
Hypothesis Hkf_lo : off lay kf <= fin.
Hypothesis Hkf_hi : (kf < n)%nat -> fin < off lay (S kf).

Lemma le_kf k : (k <= n)%nat -> off lay k <= fin -> (k <= kf)%nat.
Proof.
  intros Hk Ho. destruct (Nat.le_gt_cases k kf) as [|Hgt]; [assumption|].
  pose proof (Hkf_hi ltac:(lia)). pose proof (off_mono k (S kf) ltac:(lia) Hk). lia.
Qed.

Lemma lt_kf k d : nth_error lay k = Some (h, d) -> off lay k + h + d <= fin -> (k < kf)%nat.
Proof.
  intros Hn Ho. pose proof (nth_lt h lay k d Hn). rewrite <- (off_S h lay k d Hn) in Ho.
  pose proof (le_kf (S k) ltac:(lia) Ho). lia.
Qed.

Lemma eq_kf k d : nth_error lay k = Some (h, d) -> off lay k <= fin -> fin < off lay k + h + d -> k = kf.
Proof.
  intros Hn Ho Hlt. pose proof (nth_lt h lay k d Hn) as Hk. rewrite <- (off_S h lay k d Hn) in Hlt.
  pose proof (le_kf k ltac:(lia) Ho). destruct (Nat.eq_dec k kf) as [|Hne]; [assumption|].
  pose proof (off_mono kf (S k) ltac:(lia) Hkf). lia.
Qed.

Lemma eq_kf_end k : (k <= n)%nat -> off lay k <= fin -> fin <= off lay k -> k = kf.
Proof.
  intros Hk H1 H2. pose proof (le_kf k Hk H1). destruct (Nat.eq_dec k kf) as [|Hne]; [assumption|].
  pose proof (off_strict k kf ltac:(lia) Hkf). lia.
Qed.

Lemma fin_nonneg : 0 <= fin.
Proof. pose proof (off_mono kf 0%nat ltac:(lia) Hkf). rewrite off_0 in *. lia. Qed.

(* a read event is safe, or it is the attempt of read_remaining_trr to read the frame that
   is only partly on disk when GROMACS ended with code 0 inside a frame *)
Definition ev_ok (e : trr_event) : Prop :=
  ev_safe h lay e \/ (e = TGarbage (off lay kf) /\ off lay kf < fin).

Lemma ev_safe_ok l : Forall (ev_safe h lay) l -> Forall ev_ok l.
Proof. apply Forall_impl. intros e He. now left. Qed.

Lemma trr_remaining_fit : forall fuel k, (k <= kf)%nat -> (n - k < fuel)%nat ->
  Forall ev_ok (snd (trr_remaining fuel lay (off lay k) fin)) /\
  yields (snd (trr_remaining fuel lay (off lay k) fin)) = seq k (kf - k).
Proof.
  induction fuel as [|f IH]; intros k Hk Hf; [lia|]. cbn [trr_remaining].
  pose proof (off_mono kf k Hk Hkf) as Hok.
  destruct (Z.geb_spec (off lay k) fin) as [Hge|Hlt].
  - assert (k = kf) by (apply eq_kf_end; lia). subst k. rewrite Nat.sub_diag. cbn. auto.
  - assert (Hkn : (k < n)%nat).
    { destruct (Nat.eq_dec k n) as [->|]; [rewrite off_all in Hlt; lia|lia]. }
    destruct (nth_ex h lay Hlay k Hkn) as (d & Hn & Hd). rewrite (frame_at_off h lay h_pos Hlay k d Hn).
    destruct (Z.leb_spec (off lay k + h + d) fin) as [Hfit|Hno].
    + pose proof (lt_kf k d Hn Hfit) as Hlk. rewrite <- (off_S h lay k d Hn).
      destruct (IH (S k) ltac:(lia) ltac:(lia)) as (Hsafe & Hy).
      destruct (trr_remaining f lay (off lay (S k)) fin) as [b ev]. cbn [fst snd] in *. split.
      * constructor; [left; cbn; split; [lia|exists k; auto]|].
        constructor; [left; cbn; split; [lia|exists k, d; auto]|].
        constructor; [left; exact Hkn|exact Hsafe].
      * replace (kf - k)%nat with (S (kf - S k)) by lia. cbn [seq]. rewrite <- Hy. reflexivity.
    + assert (k = kf) by (apply (eq_kf k d Hn); lia). subst k. rewrite Nat.sub_diag. cbn [fst snd]. split.
      * constructor; [right; split; [reflexivity|lia]|constructor].
      * reflexivity.
Qed.

(* ---- while GROMACS is running *)
Inductive minv : trr_m -> nat -> Prop :=
| MA pc k hs : pc = PcPoll \/ pc = PcHdrSize -> (k <= n)%nat -> hs = 0 \/ hs = h -> off lay k <= fin ->
    minv (mkM pc (mkT (off lay k) hs None false)) k
| MP pc k d : pc = PcDataSize \/ pc = PcGuardPoll -> nth_error lay k = Some (h, d) -> off lay k + h <= fin ->
    minv (mkM pc (mkT (off lay k + h) h (Some (k, d)) false)) k.

Lemma minv_le_kf m k : minv m k -> (k <= kf)%nat.
Proof.
  destruct 1 as [pc k hs _ Hk _ Ho|pc k d _ Hn Ho].
  - now apply le_kf.
  - pose proof (nth_lt h lay k d Hn). apply le_kf; lia.
Qed.

Lemma step_running m k size : minv m k -> size <= fin ->
  exists k', minv (fst (trr_step true head lay m size false)) k' /\
             Forall (ev_safe h lay) (snd (trr_step true head lay m size false)) /\
             (k <= k')%nat /\ yields (snd (trr_step true head lay m size false)) = seq k (k' - k).
Proof.
  intros Hinv Hsz.
  destruct Hinv as [pc k hs [->| ->] Hk Hhs Ho|pc k d [->| ->] Hn Ho]; unfold trr_step; cbn [m_pc m_st].
  - exists k. cbn [fst snd]. split; [apply MA; auto|]. split; [constructor|].
    split; [lia|]. rewrite Nat.sub_diag. reflexivity.
  - unfold trr_observe; cbn [t_bad t_pend t_hs t_br].
    set (guard := if hs =? 0 then head else hs).
    assert (Hg : h <= guard) by (unfold guard; destruct Hhs as [-> | ->]; cbn;
                                  [lia|destruct (Z.eqb_spec h 0); lia]).
    destruct (Z.geb_spec size (off lay k + guard)) as [Hge|Hlt].
    + assert (Hkn : (k < n)%nat) by (apply (off_room h lay h_pos k size); lia).
      destruct (nth_ex h lay Hlay k Hkn) as (d & Hn & Hd). rewrite (frame_at_off h lay h_pos Hlay k d Hn).
      destruct (Z.leb_spec (off lay k + h) size) as [_|?]; [|lia].
      exists k. cbn [fst snd t_bad t_pend]. split; [apply MP; auto; lia|]. split.
      * constructor; [|constructor]. cbn. split; [lia|]. exists k. auto.
      * split; [lia|]. rewrite Nat.sub_diag. reflexivity.
    + exists k. cbn [fst snd t_bad t_pend]. split; [apply MA; auto|]. split; [constructor|].
      split; [lia|]. rewrite Nat.sub_diag. reflexivity.
  - unfold trr_observe; cbn [t_bad t_pend t_hs t_br].
    destruct (lay_ok_nth h lay Hlay k h d Hn) as [_ Hd]. pose proof (nth_lt h lay k d Hn) as Hkn.
    destruct (Z.geb_spec size (off lay k + h + d)) as [Hge|Hlt].
    + exists (S k). cbn [fst snd t_pend]. split.
      * rewrite <- (off_S h lay k d Hn). apply MA; [now left|lia|now right|rewrite (off_S h lay k d Hn); lia].
      * split.
        -- constructor; [|constructor; [exact Hkn|constructor]]. cbn. split; [lia|]. exists k, d. auto.
        -- split; [lia|]. replace (S k - k)%nat with 1%nat by lia. reflexivity.
    + exists k. cbn [fst snd t_pend]. split; [apply MP; auto|]. split; [constructor|].
      split; [lia|]. rewrite Nat.sub_diag. reflexivity.
  - exists k. cbn [fst snd]. split; [apply MP; auto|]. split; [constructor|].
    split; [lia|]. rewrite Nat.sub_diag. reflexivity.
Qed.

Lemma drive_running : forall sizes m k, minv m k -> Forall (fun s => s <= fin) sizes ->
  exists k', minv (fst (trr_drive true head lay m (map (fun s => (s, false)) sizes))) k' /\
             Forall (ev_safe h lay) (snd (trr_drive true head lay m (map (fun s => (s, false)) sizes))) /\
             (k <= k')%nat /\
             yields (snd (trr_drive true head lay m (map (fun s => (s, false)) sizes))) = seq k (k' - k).
Proof.
  induction sizes as [|s sizes IH]; intros m k Hinv Hsz.
  - exists k. cbn. rewrite Nat.sub_diag. repeat split; auto.
  - inversion Hsz as [|? ? Hs Hrest]; subst. cbn [map]. rewrite trr_drive_cons. cbn [fst snd].
    destruct (step_running m k s Hinv Hs) as (k1 & Hinv1 & Hsafe1 & Hk1 & Hy1).
    destruct (IH _ k1 Hinv1 Hrest) as (k2 & Hinv2 & Hsafe2 & Hk2 & Hy2).
    exists k2. split; [exact Hinv2|]. split; [apply Forall_app; auto|]. split; [lia|].
    rewrite yields_app, Hy1, Hy2. now apply seq_join.
Qed.

(* ---- after GROMACS has ended: every observation is (fin, ended) *)
Definition fin_ok (k : nat) (r : trr_m * list trr_event) : Prop :=
  m_pc (fst r) = PcDone /\ t_bad (m_st (fst r)) = false /\ Forall ev_ok (snd r) /\
  yields (snd r) = seq k (kf - k).

Local Notation E := (fin, true).

Lemma fin_FinSize k hs j : (k <= n)%nat -> off lay k <= fin ->
  fin_ok k (trr_drive true head lay (mkM PcFinSize (mkT (off lay k) hs None false)) (repeat E (2 + j))).
Proof.
  intros Hk Ho. cbn [repeat Nat.add]. rewrite trr_drive_cons. unfold trr_step. cbn [m_pc m_st t_br].
  destruct (Z.gtb_spec (fin - off lay k) 0) as [Hgt|Hle]; cbn [fst snd app].
  - rewrite trr_drive_cons. unfold trr_step. cbn [m_pc m_st t_br t_hs t_bad].
    pose proof (le_kf k Hk Ho) as Hlk.
    destruct (trr_remaining_fit (S n) k Hlk ltac:(lia)) as (Hsafe & Hy).
    destruct (trr_remaining (S n) lay (off lay k) fin) as [b ev]. cbn [fst snd] in *.
    rewrite trr_drive_done. unfold fin_ok. cbn [fst snd m_pc m_st t_bad]. rewrite app_nil_r.
    repeat split; assumption.
  - assert (k = kf) by (apply eq_kf_end; lia). subst k.
    rewrite trr_drive_done. unfold fin_ok. cbn [fst snd m_pc m_st t_bad]. rewrite Nat.sub_diag.
    repeat split; constructor.
Qed.

Lemma fin_Poll k hs j : (k <= n)%nat -> off lay k <= fin ->
  fin_ok k (trr_drive true head lay (mkM PcPoll (mkT (off lay k) hs None false)) (repeat E (3 + j))).
Proof.
  intros Hk Ho. change (3 + j)%nat with (S (2 + j)). cbn [repeat]. rewrite trr_drive_cons.
  cbn [trr_step m_pc m_st fst snd app]. now apply fin_FinSize.
Qed.

Lemma fin_Data k d j : nth_error lay k = Some (h, d) -> off lay k + h <= fin ->
  fin_ok k (trr_drive true head lay (mkM PcDataSize (mkT (off lay k + h) h (Some (k, d)) false)) (repeat E (4 + j))).
Proof.
  intros Hn Ho. destruct (lay_ok_nth h lay Hlay k h d Hn) as [_ Hd]. pose proof (nth_lt h lay k d Hn) as Hkn.
  change (4 + j)%nat with (S (3 + j)). cbn [repeat]. rewrite trr_drive_cons.
  unfold trr_step. cbn [m_pc m_st]. unfold trr_observe. cbn [t_bad t_pend t_hs t_br].
  destruct (Z.geb_spec fin (off lay k + h + d)) as [Hge|Hlt]; cbn [fst snd t_pend].
  - pose proof (lt_kf k d Hn ltac:(lia)) as Hlk. pose proof (off_S h lay k d Hn) as HS.
    rewrite <- HS.
    destruct (fin_Poll (S k) h j ltac:(lia) ltac:(lia)) as (A & B & C & D).
    unfold fin_ok. cbn [fst snd].
    split; [exact A|]. split; [exact B|]. split.
    + cbn [app]. constructor; [left; cbn; split; [lia|exists k, d; auto]|].
      constructor; [left; exact Hkn|exact C].
    + rewrite yields_app, D. replace (kf - k)%nat with (S (kf - S k)) by lia. reflexivity.
  - assert (k = kf) by (apply (eq_kf k d Hn); lia). subst k.
    change (3 + j)%nat with (S (S (1 + j))). cbn [repeat]. rewrite trr_drive_cons.
    cbn [trr_step m_pc m_st fst snd app]. rewrite trr_drive_cons.
    unfold trr_step. cbn [m_pc m_st t_pend t_br].
    destruct (Z.ltb_spec fin (off lay kf + h + d)) as [_|?]; [|lia]. cbn [fst snd app].
    rewrite trr_drive_done. unfold fin_ok. cbn [fst snd m_pc m_st t_bad]. rewrite Nat.sub_diag.
    repeat split; constructor.
Qed.

Lemma fin_GuardPoll k d j : nth_error lay k = Some (h, d) -> off lay k + h <= fin ->
  fin_ok k (trr_drive true head lay (mkM PcGuardPoll (mkT (off lay k + h) h (Some (k, d)) false)) (repeat E (6 + j))).
Proof.
  intros Hn Ho. destruct (lay_ok_nth h lay Hlay k h d Hn) as [_ Hd].
  change (6 + j)%nat with (S (S (4 + j))). cbn [repeat]. rewrite trr_drive_cons.
  cbn [trr_step m_pc m_st fst snd app]. rewrite trr_drive_cons.
  unfold trr_step. cbn [m_pc m_st t_pend t_br].
  destruct (Z.ltb_spec fin (off lay k + h + d)) as [Hlt|Hge]; cbn [fst snd app].
  - assert (k = kf) by (apply (eq_kf k d Hn); lia). subst k.
    rewrite trr_drive_done. unfold fin_ok. cbn [fst snd m_pc m_st t_bad]. rewrite Nat.sub_diag.
    repeat split; constructor.
  - now apply fin_Data.
Qed.

Lemma fin_Hdr k hs j : (k <= n)%nat -> hs = 0 \/ hs = h -> off lay k <= fin ->
  fin_ok k (trr_drive true head lay (mkM PcHdrSize (mkT (off lay k) hs None false)) (repeat E (5 + j))).
Proof.
  intros Hk Hhs Ho. change (5 + j)%nat with (S (4 + j)). cbn [repeat]. rewrite trr_drive_cons.
  unfold trr_step. cbn [m_pc m_st]. unfold trr_observe. cbn [t_bad t_pend t_hs t_br].
  set (guard := if hs =? 0 then head else hs).
  assert (Hg : h <= guard) by (unfold guard; destruct Hhs as [-> | ->]; cbn;
                                [lia|destruct (Z.eqb_spec h 0); lia]).
  destruct (Z.geb_spec fin (off lay k + guard)) as [Hge|Hlt].
  - assert (Hkn : (k < n)%nat) by (apply (off_room h lay h_pos k fin); lia).
    destruct (nth_ex h lay Hlay k Hkn) as (d & Hn & Hd). rewrite (frame_at_off h lay h_pos Hlay k d Hn).
    destruct (Z.leb_spec (off lay k + h) fin) as [_|?]; [|lia]. cbn [fst snd t_bad t_pend].
    destruct (fin_Data k d j Hn ltac:(lia)) as (A & B & C & D).
    unfold fin_ok. cbn [fst snd].
    split; [exact A|]. split; [exact B|]. split.
    + cbn [app]. constructor; [left; cbn; split; [lia|exists k; auto]|exact C].
    + rewrite yields_app, D. reflexivity.
  - cbn [fst snd t_bad t_pend app]. change (4 + j)%nat with (3 + (1 + j))%nat. now apply fin_Poll.
Qed.

Lemma minv_init : minv trr_m_init 0.
Proof.
  unfold trr_m_init, trr_init. rewrite <- (off_0 lay). apply MA; auto; [lia|].
  rewrite off_0. exact fin_nonneg.
Qed.

(* THE theorem: whatever is on disk at each observation made while GROMACS runs (never more
   than the final size) and wherever in the loop GROMACS is first seen to have ended (any
   number of observations, so any program point), the generator returns, and the frames
   handed out are exactly the [kf] frames completely on disk, each once, in order; every
   read lies inside the bytes on disk when issued *)
Theorem trr_every_interleaving sizes : Forall (fun s => s <= fin) sizes ->
  m_pc (fst (trr_sched true head lay sizes fin)) = PcDone /\
  t_bad (m_st (fst (trr_sched true head lay sizes fin))) = false /\
  Forall ev_ok (snd (trr_sched true head lay sizes fin)) /\
  yields (snd (trr_sched true head lay sizes fin)) = seq 0 kf.
Proof.
  intros Hs. unfold trr_sched, trr_world. rewrite trr_drive_app. cbn [fst snd].
  destruct (drive_running sizes trr_m_init 0%nat minv_init Hs) as (k & Hinv & Hsafe & _ & Hy).
  pose proof (minv_le_kf _ k Hinv) as Hlk.
  assert (Hfin : fin_ok k (trr_drive true head lay
                   (fst (trr_drive true head lay trr_m_init (map (fun s => (s, false)) sizes))) (repeat E 8))).
  { destruct Hinv as [pc k hs [->| ->] Hk Hhs Ho|pc k d [->| ->] Hn Ho].
    - change 8%nat with (3 + 5)%nat. now apply fin_Poll.
    - change 8%nat with (5 + 3)%nat. now apply fin_Hdr.
    - change 8%nat with (4 + 4)%nat. now apply fin_Data.
    - change 8%nat with (6 + 2)%nat. now apply fin_GuardPoll. }
  destruct Hfin as (A & B & C & D).
  split; [exact A|]. split; [exact B|]. split.
  - apply Forall_app. split; [now apply ev_safe_ok|exact C].
  - rewrite yields_app, Hy, D. pose proof (seq_join 0 k kf (Nat.le_0_l _) Hlk) as J.
    rewrite !Nat.sub_0_r in *. exact J.
Qed.

End TrrSched.

(* ---- corollaries without the auxiliary [kf] *)
Section TrrSchedCor.
Variables head h : Z.
Variable lay : layout.
Hypothesis h_pos : 0 < h.
Hypothesis h_head : h <= head.
Hypothesis Hlay : lay_ok h lay.
Local Notation n := (length lay).
Local Notation total := (layout_size lay).

(* for every final size there is exactly such a [kf] *)
Lemma complete_frames_exist fin : 0 <= fin -> fin <= total ->
  exists kf, (kf <= n)%nat /\ off lay kf <= fin /\ ((kf < n)%nat -> fin < off lay (S kf)).
Proof.
  intros H0 H1.
  assert (Haux : forall m k, (n - k = m)%nat -> (k <= n)%nat -> off lay k <= fin ->
                 exists kf, (kf <= n)%nat /\ off lay kf <= fin /\ ((kf < n)%nat -> fin < off lay (S kf))).
  { induction m as [|m IH]; intros k Hm Hk Ho.
    - exists k. split; [lia|]. split; [exact Ho|lia].
    - destruct (Z.ltb_spec fin (off lay (S k))) as [Hlt|Hge].
      + exists k. split; [lia|]. split; [exact Ho|]. intros _. exact Hlt.
      + apply (IH (S k)); lia. }
  apply (Haux (n - 0)%nat 0%nat); [reflexivity|lia|]. rewrite off_0. exact H0.
Qed.

(* GROMACS ended with code 0 at a frame boundary (it wrote [kf] whole frames) *)
Theorem trr_every_interleaving_boundary kf sizes : (kf <= n)%nat ->
  Forall (fun s => s <= off lay kf) sizes ->
  m_pc (fst (trr_sched true head lay sizes (off lay kf))) = PcDone /\
  t_bad (m_st (fst (trr_sched true head lay sizes (off lay kf)))) = false /\
  Forall (ev_safe h lay) (snd (trr_sched true head lay sizes (off lay kf))) /\
  yields (snd (trr_sched true head lay sizes (off lay kf))) = seq 0 kf.
Proof.
  intros Hkf Hs.
  destruct (trr_every_interleaving head h lay h_pos h_head Hlay (off lay kf) kf
              (off_le_total h lay h_pos Hlay kf) Hkf (Z.le_refl _)
              (fun H => off_lt_S h lay h_pos Hlay kf H) sizes Hs) as (A & B & C & D).
  split; [exact A|]. split; [exact B|]. split; [|exact D].
  revert C. apply Forall_impl. intros e [He|[_ He]]; [exact He|lia].
Qed.

(* ... in particular when it wrote everything: no complete frame is lost, for every
   interleaving *)
Theorem trr_no_complete_frame_lost sizes : Forall (fun s => s <= total) sizes ->
  m_pc (fst (trr_sched true head lay sizes total)) = PcDone /\
  t_bad (m_st (fst (trr_sched true head lay sizes total))) = false /\
  Forall (ev_safe h lay) (snd (trr_sched true head lay sizes total)) /\
  yields (snd (trr_sched true head lay sizes total)) = seq 0 n.
Proof.
  intros Hs. rewrite <- (off_all lay) in Hs |- * at 1 2 3 4.
  pose proof (trr_every_interleaving_boundary n sizes (Nat.le_refl _)) as T.
  rewrite !off_all in *. exact (T Hs).
Qed.

End TrrSchedCor.

Theorem trr_gromacs_no_complete_frame_lost : forall h lay,
  h = trr_header_bytes_single \/ h = trr_header_bytes_double -> lay_ok h lay ->
  forall sizes, Forall (fun s => s <= layout_size lay) sizes ->
  m_pc (fst (trr_sched true trr_head_size lay sizes (layout_size lay))) = PcDone /\
  Forall (ev_safe h lay) (snd (trr_sched true trr_head_size lay sizes (layout_size lay))) /\
  yields (snd (trr_sched true trr_head_size lay sizes (layout_size lay))) = seq 0 (length lay).
Proof.
  intros h lay Hh Hlay sizes Hs.
  destruct (trr_header_fits h Hh) as [H0 H1].
  destruct (trr_no_complete_frame_lost trr_head_size h lay H0 H1 Hlay sizes Hs) as (A & _ & C & D).
  auto.
Qed.

(* deciding with the size read BEFORE check_poll() (no second getsize after learning that
   GROMACS has ended) loses complete frames: header of frame 0 read with 1000 bytes on disk,
   data not yet complete, GROMACS writes the rest (both frames) and exits before the poll *)
Theorem trr_stale_size_refuted :
  exists lay sizes, lay_ok trr_header_bytes_single lay /\
    Forall (fun s => s <= layout_size lay) sizes /\
    m_pc (fst (trr_sched false trr_head_size lay sizes (layout_size lay))) = PcDone /\
    yields (snd (trr_sched false trr_head_size lay sizes (layout_size lay))) = [] /\
    yields (snd (trr_sched true trr_head_size lay sizes (layout_size lay))) = [0%nat; 1%nat].
Proof.
  exists [(84, 1000); (84, 1000)], [1000; 1000; 1000]. split; [|split].
  - repeat constructor; cbn; lia.
  - repeat constructor; cbn; lia.
  - vm_compute. auto.
Qed.

(* ------------------------------------------------------------------ whose data size?
   [trr_step_g dg] = the loop with its two data-size guards using [dg lay idx d].  With the
   size announced by the frame's own header ([own_size]) it IS the loop as it is, so every
   theorem about [trr_sched true] is a theorem about per-frame data sizes; no hypothesis says
   that two frames have the same size ([lay_ok] fixes the header size only). *)
Lemma trr_observe_g_own head lay st size :
  trr_observe_g own_size head lay st size = trr_observe head lay st size.
Proof.
  unfold trr_observe_g, trr_observe, own_size.
  destruct (t_bad st); [reflexivity|].
  destruct (t_pend st) as [[idx d]|]; [|reflexivity].
  destruct (size >=? t_br st + d) eqn:E; [|reflexivity].
  assert (L : (t_br st + d <=? size) = true) by (apply Z.leb_le; apply Z.geb_le in E; lia).
  rewrite L. reflexivity.
Qed.

Lemma trr_step_g_own head lay m size ended :
  trr_step_g own_size head lay m size ended = trr_step true head lay m size ended.
Proof.
  unfold trr_step_g, trr_step. destruct (m_pc m); try reflexivity.
  rewrite trr_observe_g_own. reflexivity.
Qed.

Lemma trr_drive_g_own head lay obs : forall m,
  trr_drive_g own_size head lay m obs = trr_drive true head lay m obs.
Proof.
  induction obs as [|[s e] r IH]; intros m; [reflexivity|].
  cbn [trr_drive_g trr_drive]. rewrite trr_step_g_own.
  destruct (trr_step true head lay m s e) as [m1 ev1]. rewrite IH. reflexivity.
Qed.

Theorem trr_sched_g_own head lay sizes fin :
  trr_sched_g own_size head lay sizes fin = trr_sched true head lay sizes fin.
Proof. unfold trr_sched_g, trr_sched. apply trr_drive_g_own. Qed.

(* The data size computed once ("while data_size == 0") and used for the guards of all later
   frames is refuted on files whose frames differ in size.
   (a) small frame first (positions only, then positions + velocities): the stale, smaller
   size lets get_data run on a frame that is only partly on disk - the reader goes wrong
   (raises / returns garbage) on a PARTIAL frame, where the loop as it is waits and hands out
   both frames; *)
Theorem trr_cached_size_torn_refuted :
  exists lay sizes, lay_ok trr_header_bytes_single lay /\
    Forall (fun s => s <= layout_size lay) sizes /\
    t_bad (m_st (fst (trr_sched_g cached_size trr_head_size lay sizes (layout_size lay)))) = true /\
    yields (snd (trr_sched_g cached_size trr_head_size lay sizes (layout_size lay))) = [0%nat] /\
    In (TGarbage 1168) (snd (trr_sched_g cached_size trr_head_size lay sizes (layout_size lay))) /\
    t_bad (m_st (fst (trr_sched true trr_head_size lay sizes (layout_size lay)))) = false /\
    yields (snd (trr_sched true trr_head_size lay sizes (layout_size lay))) = [0%nat; 1%nat].
Proof.
  exists [(84, 1000); (84, 2000)], [0; 1084; 1084; 1084; 2500; 2500]. split; [|split].
  - repeat constructor; cbn; lia.
  - repeat constructor; cbn; lia.
  - vm_compute. intuition.
Qed.

(* (b) large frame first (forces with frame 0 only): the stale, larger size makes the loop wait
   for bytes that are never written; when GROMACS ends it takes the "this frame will never be
   completed" exit, and the last frame - completely on disk, no cut at all - is never handed out *)
Theorem trr_cached_size_lost_refuted :
  exists lay sizes, lay_ok trr_header_bytes_single lay /\
    Forall (fun s => s <= layout_size lay) sizes /\
    m_pc (fst (trr_sched_g cached_size trr_head_size lay sizes (layout_size lay))) = PcDone /\
    t_bad (m_st (fst (trr_sched_g cached_size trr_head_size lay sizes (layout_size lay)))) = false /\
    yields (snd (trr_sched_g cached_size trr_head_size lay sizes (layout_size lay))) = [0%nat] /\
    yields (snd (trr_sched true trr_head_size lay sizes (layout_size lay))) = [0%nat; 1%nat].
Proof.
  exists [(84, 2000); (84, 1000)], [3168; 3168; 3168; 3168; 3168; 3168; 3168]. split; [|split].
  - repeat constructor; cbn; lia.
  - repeat constructor; cbn; lia.
  - vm_compute. intuition.
Qed.
