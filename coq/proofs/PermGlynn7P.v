(* Glynn's formula as coded in fast_glynn_perm equals the permanent for every rational 7 x 7 matrix
   (symbolic entries, by field; about 5 minutes of checking, hence a file of its own), and the
   combined statement for sizes 1..7. *)
From Coq Require Import ZArith NArith QArith Qabs List Bool Arith Lia Setoid Morphisms.
From Inf Require Import model.PermM spec.PermS proofs.PermSpecP proofs.PermGlynnP.
Import ListNotations.
Open Scope Q_scope.

Lemma fast_glynn_eq_perm_7 : forall x11 x12 x13 x14 x15 x16 x17 x21 x22 x23 x24 x25 x26 x27 x31 x32 x33 x34 x35 x36 x37 x41 x42 x43 x44 x45 x46 x47 x51 x52 x53 x54 x55 x56 x57 x61 x62 x63 x64 x65 x66 x67 x71 x72 x73 x74 x75 x76 x77,
  exists p, fast_glynn_perm [[x11; x12; x13; x14; x15; x16; x17]; [x21; x22; x23; x24; x25; x26; x27]; [x31; x32; x33; x34; x35; x36; x37]; [x41; x42; x43; x44; x45; x46; x47]; [x51; x52; x53; x54; x55; x56; x57]; [x61; x62; x63; x64; x65; x66; x67]; [x71; x72; x73; x74; x75; x76; x77]] = Some p /\
            p == perm 7 (of_lists [[x11; x12; x13; x14; x15; x16; x17]; [x21; x22; x23; x24; x25; x26; x27]; [x31; x32; x33; x34; x35; x36; x37]; [x41; x42; x43; x44; x45; x46; x47]; [x51; x52; x53; x54; x55; x56; x57]; [x61; x62; x63; x64; x65; x66; x67]; [x71; x72; x73; x74; x75; x76; x77]]).
Proof. glynn_tac 7%nat. Qed.

Theorem fast_glynn_eq_perm_le7 : forall n M, (1 <= n <= 7)%nat -> square n M ->
  exists p, fast_glynn_perm M = Some p /\ p == perm n (of_lists M).
Proof.
  intros n M Hn Hsq.
  destruct (Nat.eq_dec n 7) as [-> | Hne].
  - destruct Hsq as [Hl Hr]. destr_len. apply fast_glynn_eq_perm_7.
  - apply fast_glynn_eq_perm_le6; [lia | exact Hsq].
Qed.
