(* quick_prob (the fast path of inf_retis) returns EXACTLY the permanent ratios Pspec on
   staircase matrices of ANY size, rows in any order (no sortedness assumed).

   Notation: n rows, row i is non-zero exactly in columns 0 .. k_i - 1;  W_ic = [c < k_i]  (sW k);
   m_c = number of rows with a one in column c (cnt);  D_c = m_c + (c + 1) - n  (Dq, in Q, signed).

   (A) perm_staircase_product:       perm n W = prod_{c<n} D_c                    (no hypothesis)
   (B) Pspec_staircase_closed_form:  Pspec n W i j = W_ij * (1/D_j) * prod_{j<c<n} (1 - W_ic/D_c)
   (C) quick_loop_closed_form / quick_prob_closed_form: the column loop of quick_prob (last column
       first) produces the same numbers; before column c the remaining mass of row i is
       T_i(c+1) = prod_{c<c'<n} (1 - W_ic'/D_c'), the masses add up to c+1, rows without a one in
       column c are untouched, so the column total is D_c and nothing is clamped.
   (B) and (C) need D_c >= 1 for every column: Hall's condition m_c >= n - c, i.e. "column c has
   at most c zeros" (the hypothesis of quick_prob_doubly_stochastic), shown here to be equivalent
   to perm n W <> 0 (perm_staircase_nonzero_iff_hall, perm_stair01_nonzero_iff).

   Main results: quick_prob_eq_Pspec_staircase01 (0/1 staircases as lists of rows, [stair01]),
   quick_prob_eq_Pspec_uniform_rows (one arbitrary non-zero weight per row).
   [stair01 n ks] is the plain n x n staircase (PermQuickP.staircase); spec/PermS.v's
   [stair_matrix ks] is the full state matrix with the [0-] and ghost rows/columns added, whose
   permanent is 0 - quick_prob is only ever called on the plain block. *)
From Coq Require Import ZArith QArith List Bool Arith Lia Lqa Setoid Morphisms.
From Inf Require Import spec.PermS model.PermM proofs.PermSpecP proofs.PermQuickP.
Import ListNotations.
Open Scope Q_scope.

(* ------------------------------------------------------------------ *)
(* qprod and qsum                                                       *)

Lemma qprod_S : forall n f, qprod (S n) f = qprod n f * f n.
Proof. reflexivity. Qed.

Lemma qprod_ext : forall n f g,
  (forall k, (k < n)%nat -> f k == g k) -> qprod n f == qprod n g.
Proof.
  induction n as [|n IH]; intros f g H.
  - reflexivity.
  - rewrite !qprod_S. rewrite (IH f g).
    + rewrite (H n); [reflexivity | lia].
    + intros k Hk. apply H. lia.
Qed.

Lemma qprod_mult : forall n f g,
  qprod n (fun k => f k * g k) == qprod n f * qprod n g.
Proof.
  induction n as [|n IH]; intros f g.
  - cbn. ring.
  - rewrite !qprod_S. rewrite IH. ring.
Qed.

Lemma qprod_one : forall n, qprod n (fun _ => 1) == 1.
Proof.
  induction n as [|n IH]; [reflexivity|]. rewrite qprod_S, IH. ring.
Qed.

Lemma qprod_single : forall n j x, (j < n)%nat ->
  qprod n (fun c => if (c =? j)%nat then x else 1) == x.
Proof.
  induction n as [|n IH]; intros j x Hj; [lia|].
  rewrite qprod_S. destruct (Nat.eqb_spec n j) as [E | NE].
  - subst j. rewrite (qprod_ext n _ (fun _ => 1)).
    + rewrite qprod_one. ring.
    + intros k Hk. destruct (Nat.eqb_spec k n); [lia | reflexivity].
  - rewrite IH by lia. ring.
Qed.

Lemma qprod_skip : forall n j h, (j <= n)%nat ->
  qprod n (fun k => h (skip j k)) ==
  qprod (S n) (fun b => if (b =? j)%nat then 1 else h b).
Proof.
  induction n as [|n IH]; intros j h Hj.
  - assert (j = O) by lia. subst j. cbn. ring.
  - rewrite (qprod_S n). rewrite (qprod_S (S n)).
    destruct (Nat.eq_dec j (S n)) as [E | NE].
    + subst j. rewrite Nat.eqb_refl.
      transitivity (qprod n h * h n).
      * apply Qmult_comp.
        -- apply qprod_ext. intros k Hk. unfold skip.
           destruct (Nat.ltb_spec k (S n)); [reflexivity | lia].
        -- unfold skip. destruct (Nat.ltb_spec n (S n)); [reflexivity | lia].
      * rewrite <- (qprod_S n h).
        transitivity (qprod (S n) (fun b => if (b =? S n)%nat then 1 else h b)).
        -- apply qprod_ext. intros k Hk.
           destruct (Nat.eqb_spec k (S n)); [lia | reflexivity].
        -- ring.
    + rewrite (IH j h) by lia.
      apply Qmult_comp; [reflexivity |].
      unfold skip. destruct (Nat.ltb_spec n j); [lia |].
      destruct (Nat.eqb_spec (S n) j); [lia | reflexivity].
Qed.

Lemma qprod_pos : forall n f, (forall k, (k < n)%nat -> 0 < f k) -> 0 < qprod n f.
Proof.
  induction n as [|n IH]; intros f H; [reflexivity|].
  rewrite qprod_S. apply Qmult_lt_0_compat; [apply IH; intros k Hk; apply H; lia | apply H; lia].
Qed.

Lemma qprod_nonneg : forall n f, (forall k, (k < n)%nat -> 0 <= f k) -> 0 <= qprod n f.
Proof.
  induction n as [|n IH]; intros f H; [discriminate|].
  rewrite qprod_S. apply Qmult_le_0_compat; [apply IH; intros k Hk; apply H; lia | apply H; lia].
Qed.

Lemma qprod_zero : forall n f j, (j < n)%nat -> f j == 0 -> qprod n f == 0.
Proof.
  induction n as [|n IH]; intros f j Hj H0; [lia|].
  rewrite qprod_S. destruct (Nat.eq_dec j n) as [E | NE].
  - subst j. rewrite H0. ring.
  - rewrite (IH f j) by (lia || exact H0). ring.
Qed.

Lemma qprod_nonzero_all : forall n f, ~ qprod n f == 0 -> forall j, (j < n)%nat -> ~ f j == 0.
Proof. intros n f H j Hj H0. apply H. apply (qprod_zero n f j Hj H0). Qed.

Lemma qsum_except : forall n i h, (i < n)%nat ->
  qsum n (fun b => if (b =? i)%nat then 0 else h b) == qsum n h - h i.
Proof.
  induction n as [|n IH]; intros i h Hi; [lia|].
  rewrite !qsum_S. destruct (Nat.eqb_spec n i) as [E | NE].
  - subst i. rewrite (qsum_ext n _ h).
    + ring.
    + intros k Hk. destruct (Nat.eqb_spec k n); [lia | reflexivity].
  - rewrite IH by lia. ring.
Qed.

Lemma qsum_const : forall n x, qsum n (fun _ => x) == Qn n * x.
Proof.
  induction n as [|n IH]; intros x.
  - unfold Qn. cbn. ring.
  - rewrite qsum_S, IH, Qn_S. ring.
Qed.

Lemma qsum_minus : forall n f g,
  qsum n (fun k => f k - g k) == qsum n f - qsum n g.
Proof.
  induction n as [|n IH]; intros f g.
  - cbn. ring.
  - rewrite !qsum_S. rewrite IH. ring.
Qed.

(* ------------------------------------------------------------------ *)
(* The 0/1 staircase with supports k, as a function                     *)

Definition sW (k : nat -> nat) : mat := fun i c => if (c <? k i)%nat then 1 else 0.

(* number of ones in column c, and the factor D_c = m_c - (n - 1 - c) *)
Definition csum (n : nat) (k : nat -> nat) (c : nat) : Q := qsum n (fun i => sW k i c).
Definition Dq (n : nat) (k : nat -> nat) (c : nat) : Q := csum n k c + Qn (S c) - Qn n.

Lemma sW_01 : forall k i c, sW k i c == 0 \/ sW k i c == 1.
Proof. intros k i c. unfold sW. destruct (c <? k i)%nat; [right | left]; reflexivity. Qed.

Lemma csum_skip : forall n k i c, (i <= n)%nat ->
  csum n (fun a => k (skip i a)) c == csum (S n) k c - sW k i c.
Proof.
  intros n k i c Hi. unfold csum.
  change (qsum n (fun a => sW (fun a0 => k (skip i a0)) a c))
    with (qsum n (fun a => (fun b => sW k b c) (skip i a))).
  rewrite (qsum_skip n i (fun b => sW k b c) Hi).
  rewrite qsum_except by lia. reflexivity.
Qed.

(* ------------------------------------------------------------------ *)
(* (A) the permanent of a staircase is the product of the D_c           *)

Theorem perm_staircase_product : forall n k, perm n (sW k) == qprod n (Dq n k).
Proof.
  induction n as [|n IH]; intros k; [reflexivity|].
  rewrite (perm_expand_col (S n) (sW k) n) by lia. change (pred (S n)) with n.
  rewrite qprod_S.
  assert (HD : Dq (S n) k n == csum (S n) k n) by (unfold Dq; ring).
  rewrite HD. unfold csum.
  rewrite <- qsum_scale.
  transitivity (qsum (S n) (fun i => qprod n (Dq (S n) k) * sW k i n)).
  2: { apply qsum_ext. intros i Hi. reflexivity. }
  apply qsum_ext. intros i Hi.
  assert (Hm : perm n (minor i n (sW k)) == perm n (sW (fun a => k (skip i a)))).
  { apply perm_ext. intros a b Ha Hb. unfold minor, sW.
    replace (skip n b) with b; [reflexivity|].
    unfold skip. destruct (Nat.ltb_spec b n); [reflexivity | lia]. }
  rewrite Hm, IH.
  unfold sW at 1 2. destruct (Nat.ltb_spec n (k i)) as [Hk | Hk].
  - rewrite Qmult_comm. apply Qmult_comp; [|reflexivity].
    apply qprod_ext. intros c Hc. unfold Dq.
    rewrite (csum_skip n k i c) by lia.
    unfold sW at 1. destruct (Nat.ltb_spec c (k i)) as [_ | Hk']; [|lia].
    rewrite (Qn_S n). ring.
  - ring.
Qed.

Lemma qprod_nonzero : forall n f, (forall k, (k < n)%nat -> ~ f k == 0) -> ~ qprod n f == 0.
Proof.
  induction n as [|n IH]; intros f H; [discriminate|].
  rewrite qprod_S. intros E. apply Qmult_integral in E. destruct E as [E | E].
  - apply (IH f); [intros k Hk; apply H; lia | exact E].
  - apply (H n); [lia | exact E].
Qed.

(* ------------------------------------------------------------------ *)
(* (B) closed form of Pspec on a staircase                              *)

(* T_i(j) = prod_{j <= c < n} (1 - W_ic / D_c) *)
Definition Tq (n : nat) (k : nat -> nat) (i j : nat) : Q :=
  qprod n (fun c => if (c <? j)%nat then 1 else 1 - sW k i c / Dq n k c).

Lemma Tq_top : forall n k i, Tq n k i n == 1.
Proof.
  intros n k i. unfold Tq. rewrite (qprod_ext n _ (fun _ => 1)); [apply qprod_one|].
  intros c Hc. destruct (Nat.ltb_spec c n); [reflexivity | lia].
Qed.

Lemma Tq_step : forall n k i j, (j < n)%nat ->
  Tq n k i j == Tq n k i (S j) * (1 - sW k i j / Dq n k j).
Proof.
  intros n k i j Hj. unfold Tq.
  rewrite <- (qprod_single n j (1 - sW k i j / Dq n k j) Hj).
  rewrite <- qprod_mult. apply qprod_ext. intros c Hc.
  destruct (Nat.eqb_spec c j) as [E | NE].
  - subst c. destruct (Nat.ltb_spec j j); [lia|]. destruct (Nat.ltb_spec j (S j)); [|lia]. ring.
  - destruct (Nat.ltb_spec c j); destruct (Nat.ltb_spec c (S j)); try lia; ring.
Qed.

(* support of a row after deleting column j *)
Definition down (j x : nat) : nat := if (j <? x)%nat then pred x else x.

Lemma minor_sW : forall k i j a b,
  minor i j (sW k) a b = sW (fun a => down j (k (skip i a))) a b.
Proof.
  intros k i j a b. unfold minor, sW, down.
  assert (E : (skip j b <? k (skip i a))%nat =
              (b <? (if (j <? k (skip i a))%nat then pred (k (skip i a)) else k (skip i a)))%nat).
  { generalize (k (skip i a)) as x. intros x. unfold skip.
    destruct (Nat.ltb_spec b j); destruct (Nat.ltb_spec j x);
      match goal with |- (?p <? ?q)%nat = (?r <? ?s)%nat =>
        destruct (Nat.ltb_spec p q); destruct (Nat.ltb_spec r s) end; try reflexivity; lia. }
  rewrite E. reflexivity.
Qed.

Theorem Pspec_staircase_closed_form : forall n k i j,
  (forall c, (c < n)%nat -> ~ Dq n k c == 0) -> (i < n)%nat -> (j < n)%nat ->
  Pspec n (sW k) i j == sW k i j * Tq n k i (S j) / Dq n k j.
Proof.
  intros n k i j HD Hi Hj. destruct n as [|n]; [lia|].
  unfold Pspec. change (pred (S n)) with n.
  unfold sW at 1 4. destruct (Nat.ltb_spec j (k i)) as [Hk | Hk].
  2: { unfold Qdiv. ring. }
  set (k' := fun a => down j (k (skip i a))).
  assert (Hm : perm n (minor i j (sW k)) == perm n (sW k')).
  { apply perm_ext. intros a b _ _. rewrite minor_sW. reflexivity. }
  rewrite Hm. rewrite !perm_staircase_product.
  set (h := fun b => if (b <? j)%nat then Dq (S n) k b else Dq (S n) k b - sW k i b).
  assert (HD' : forall c, (c < n)%nat -> Dq n k' c == h (skip j c)).
  { intros c Hc. unfold Dq at 1.
    assert (Hcs : csum n k' c == csum (S n) k (skip j c) - sW k i (skip j c)).
    { rewrite <- (csum_skip n k i (skip j c)) by lia. unfold csum. apply qsum_ext. intros a Ha.
      unfold k'. rewrite <- minor_sW. reflexivity. }
    rewrite Hcs. unfold h, skip. destruct (Nat.ltb_spec c j) as [Hcj | Hcj].
    - destruct (Nat.ltb_spec c j); [|lia]. unfold Dq. rewrite (Qn_S n).
      unfold sW. destruct (Nat.ltb_spec c (k i)); [|lia]. ring.
    - destruct (Nat.ltb_spec (S c) j); [lia|]. unfold Dq. rewrite (Qn_S n), (Qn_S (S c)). ring. }
  rewrite (qprod_ext n _ _ HD').
  rewrite (qprod_skip n j h) by lia.
  set (f := fun c => if (c <? S j)%nat then 1 else 1 - sW k i c / Dq (S n) k c).
  assert (Hpt : forall b, (b < S n)%nat ->
    (if (b =? j)%nat then 1 else h b) ==
    Dq (S n) k b * (f b * (if (b =? j)%nat then / Dq (S n) k j else 1))).
  { intros b Hb. unfold h, f. destruct (Nat.eqb_spec b j) as [E | NE].
    - subst b. destruct (Nat.ltb_spec j (S j)); [|lia]. field. apply HD. exact Hj.
    - destruct (Nat.ltb_spec b j); destruct (Nat.ltb_spec b (S j)); try lia.
      + ring.
      + field. apply HD. exact Hb. }
  rewrite (qprod_ext (S n) _ _ Hpt).
  rewrite !qprod_mult. rewrite (qprod_single (S n) j _ Hj).
  change (qprod (S n) f) with (Tq (S n) k i (S j)).
  field. split; [apply HD; exact Hj | apply qprod_nonzero; exact HD].
Qed.

(* ------------------------------------------------------------------ *)
(* (C) the numbers the column loop produces                             *)

Lemma Tq_one_beyond : forall n k i j, (k i <= j)%nat -> Tq n k i j == 1.
Proof.
  intros n k i j H. unfold Tq. rewrite (qprod_ext n _ (fun _ => 1)); [apply qprod_one|].
  intros c Hc. destruct (Nat.ltb_spec c j); [reflexivity|].
  unfold sW. destruct (Nat.ltb_spec c (k i)); [lia|]. unfold Qdiv. ring.
Qed.

Lemma inv_le_1 : forall s, 1 <= s -> 0 < / s /\ / s <= 1.
Proof.
  intros s Hs.
  assert (Hinv : 0 < / s) by (apply Qinv_lt_0_compat; lra).
  assert (Hsi : s * / s == 1) by (apply Qmult_inv_r; lra).
  split; [exact Hinv | nra].
Qed.

Lemma Tq_factor_nonneg : forall n k i c, 1 <= Dq n k c -> 0 <= 1 - sW k i c / Dq n k c.
Proof.
  intros n k i c H. destruct (inv_le_1 _ H) as [H1 H2]. unfold Qdiv.
  destruct (sW_01 k i c) as [E | E]; rewrite E; lra.
Qed.

Lemma Tq_nonneg : forall n k i j, (forall c, (c < n)%nat -> 1 <= Dq n k c) -> 0 <= Tq n k i j.
Proof.
  intros n k i j HD. unfold Tq. apply qprod_nonneg. intros c Hc.
  destruct (c <? j)%nat; [lra|]. apply Tq_factor_nonneg. apply HD. exact Hc.
Qed.

(* rows without a one in column c are still untouched; hence the total of column c *)
Lemma col_total_from_mass : forall n k c,
  qsum n (fun i => Tq n k i (S c)) == Qn (S c) ->
  qsum n (fun i => sW k i c * Tq n k i (S c)) == Dq n k c.
Proof.
  intros n k c Hm.
  rewrite (qsum_ext n _ (fun i => (Tq n k i (S c) - 1) + sW k i c)).
  - rewrite qsum_plus, qsum_minus, qsum_const, Hm. unfold Dq, csum. ring.
  - intros i Hi. unfold sW. destruct (Nat.ltb_spec c (k i)) as [H | H].
    + ring.
    + rewrite (Tq_one_beyond n k i (S c)) by lia. ring.
Qed.

Lemma mass_step : forall n k c, (c < n)%nat -> ~ Dq n k c == 0 ->
  qsum n (fun i => Tq n k i (S c)) == Qn (S c) ->
  qsum n (fun i => Tq n k i c) == Qn c.
Proof.
  intros n k c Hc HD Hm.
  rewrite (qsum_ext n _ (fun i => Tq n k i (S c) - / Dq n k c * (sW k i c * Tq n k i (S c)))).
  - rewrite qsum_minus, qsum_scale, Hm, (col_total_from_mass n k c Hm), Qn_S. field. exact HD.
  - intros i Hi. rewrite (Tq_step n k i c Hc). field. exact HD.
Qed.

Lemma Tq_mass : forall n k, (forall c, (c < n)%nat -> ~ Dq n k c == 0) ->
  forall p c, (c + p = n)%nat -> qsum n (fun i => Tq n k i c) == Qn c.
Proof.
  intros n k HD. induction p as [|p IH]; intros c Hc.
  - assert (c = n) by lia. subst c.
    rewrite (qsum_ext n _ (fun _ => 1)) by (intros i _; apply Tq_top).
    rewrite qsum_const. ring.
  - apply mass_step; [lia | apply HD; lia | apply IH; lia].
Qed.

Lemma col_total : forall n k, (forall c, (c < n)%nat -> ~ Dq n k c == 0) ->
  forall c, (c < n)%nat -> qsum n (fun i => sW k i c * Tq n k i (S c)) == Dq n k c.
Proof.
  intros n k HD c Hc. apply col_total_from_mass. apply (Tq_mass n k HD (n - S c)%nat). lia.
Qed.

(* ------------------------------------------------------------------ *)
(* list facts                                                           *)

Lemma qnth_map : forall (f : Q -> Q) l i, (i < length l)%nat -> qnth (map f l) i = f (qnth l i).
Proof.
  intros f l i H. unfold qnth. rewrite (nth_indep _ 0 (f 0)) by (rewrite map_length; exact H).
  apply map_nth.
Qed.

Lemma zipw_length : forall (f : Q -> Q -> Q) a b, length a = length b -> length (zipw f a b) = length a.
Proof.
  intros f. induction a as [|x a IH]; intros b H; [reflexivity|].
  destruct b as [|y b]; [discriminate|]. cbn. f_equal. apply IH. cbn in H. lia.
Qed.

Lemma qnth_zipw : forall (f : Q -> Q -> Q) a b i, length a = length b -> (i < length a)%nat ->
  qnth (zipw f a b) i = f (qnth a i) (qnth b i).
Proof.
  intros f. induction a as [|x a IH]; intros b i H Hi; [cbn in Hi; lia|].
  destruct b as [|y b]; [discriminate|]. destruct i as [|i]; [reflexivity|].
  cbn in H, Hi. unfold qnth. cbn [zipw nth]. apply IH; lia.
Qed.

Lemma qsuml_qsum : forall l, qsuml l == qsum (length l) (fun i => qnth l i).
Proof.
  induction l as [|x l IH]; [reflexivity|].
  cbn [length]. rewrite qsum_shift. rewrite qsuml_cons, IH. reflexivity.
Qed.

Lemma clamp0_id : forall x, 0 <= x -> clamp0 x = x.
Proof.
  intros x H. unfold clamp0. destruct (Qle_bool 0 x) eqn:E; [reflexivity|].
  apply Qle_bool_iff in H. congruence.
Qed.

(* ------------------------------------------------------------------ *)
(* one column step on the closed form                                   *)

Lemma quick_step_closed : forall n k, (forall c, (c < n)%nat -> 1 <= Dq n k c) ->
  forall c t col, (c < n)%nat -> length t = n -> length col = n ->
  (forall i, (i < n)%nat -> qnth col i == sW k i c) ->
  (forall i, (i < n)%nat -> qnth t i == Tq n k i (S c)) ->
  let e := fst (quick_step t col) in
  let t' := snd (quick_step t col) in
  length e = n /\ length t' = n /\
  (forall i, (i < n)%nat -> qnth e i == sW k i c * Tq n k i (S c) / Dq n k c) /\
  (forall i, (i < n)%nat -> qnth t' i == Tq n k i c).
Proof.
  intros n k HD1 c t col Hc Ht Hcol Hcv Htv.
  assert (HD : forall c0, (c0 < n)%nat -> ~ Dq n k c0 == 0).
  { intros c0 H0 E. specialize (HD1 c0 H0). lra. }
  set (ens := zipw Qmult col t).
  assert (Hlen : length ens = n) by (unfold ens; rewrite zipw_length; lia).
  assert (Hens : forall i, (i < n)%nat -> qnth ens i == sW k i c * Tq n k i (S c)).
  { intros i Hi. unfold ens. rewrite qnth_zipw by lia. rewrite (Hcv i Hi), (Htv i Hi). reflexivity. }
  assert (Hs : qsuml ens == Dq n k c).
  { rewrite qsuml_qsum, Hlen. rewrite (qsum_ext n _ _ Hens). apply col_total; assumption. }
  assert (Hs1 : 1 <= qsuml ens) by (rewrite Hs; apply HD1; exact Hc).
  assert (Hq : Qeq_bool (qsuml ens) 0 = false).
  { destruct (Qeq_bool (qsuml ens) 0) eqn:E; [|reflexivity]. apply Qeq_bool_iff in E. lra. }
  unfold quick_step. fold ens. rewrite Hq. cbn [fst snd].
  set (e := map (fun x => Qred (x / qsuml ens)) ens).
  assert (Hel : length e = n) by (unfold e; rewrite map_length; exact Hlen).
  assert (He : forall i, (i < n)%nat -> qnth e i == sW k i c * Tq n k i (S c) / Dq n k c).
  { intros i Hi. unfold e. rewrite qnth_map by lia. rewrite Qred_correct.
    rewrite (Hens i Hi), Hs. reflexivity. }
  split; [exact Hel|]. split; [rewrite map_length, zipw_length; lia|]. split; [exact He|].
  intros i Hi. rewrite qnth_map by (rewrite zipw_length; lia). rewrite qnth_zipw by lia.
  assert (Hv : Qred (qnth t i - qnth e i) == Tq n k i c).
  { rewrite Qred_correct, (Htv i Hi), (He i Hi), (Tq_step n k i c Hc). field. apply HD. exact Hc. }
  rewrite clamp0_id; [exact Hv|]. rewrite Hv. apply Tq_nonneg. exact HD1.
Qed.

(* ------------------------------------------------------------------ *)
(* the loop over the columns m-1, ..., 0                                *)

Lemma rev_map_seq_S : forall (colf : nat -> list Q) m,
  rev (map colf (seq 0 (S m))) = colf m :: rev (map colf (seq 0 m)).
Proof.
  intros colf m. rewrite seq_S, map_app, rev_app_distr. reflexivity.
Qed.

Lemma quick_loop_closed_form : forall n k, (forall c, (c < n)%nat -> 1 <= Dq n k c) ->
  forall (colf : nat -> list Q) m t, (m <= n)%nat -> length t = n ->
  (forall i, (i < n)%nat -> qnth t i == Tq n k i m) ->
  (forall c, (c < m)%nat -> length (colf c) = n /\ forall i, (i < n)%nat -> qnth (colf c) i == sW k i c) ->
  let es := quick_loop t (rev (map colf (seq 0 m))) in
  length es = m /\
  forall c i, (c < m)%nat -> (i < n)%nat ->
    qnth (nth c (rev es) []) i == sW k i c * Tq n k i (S c) / Dq n k c.
Proof.
  intros n k HD1 colf. induction m as [|m IH]; intros t Hm Ht Htv Hcols.
  - cbn. split; [reflexivity|]. intros c i Hc. lia.
  - cbv zeta. rewrite rev_map_seq_S, quick_loop_cons.
    destruct (Hcols m ltac:(lia)) as [Hcl Hcv].
    destruct (quick_step_closed n k HD1 m t (colf m) ltac:(lia) Ht Hcl Hcv Htv) as (S1 & S2 & S3 & S4).
    specialize (IH (snd (quick_step t (colf m))) ltac:(lia) S2 S4 (fun c Hc => Hcols c ltac:(lia))).
    cbv zeta in IH. destruct IH as [I1 I2].
    split; [cbn [length]; f_equal; exact I1|].
    intros c i Hc Hi. cbn [rev].
    destruct (Nat.eq_dec c m) as [E | NE].
    + subst c. rewrite app_nth2 by (rewrite rev_length; lia).
      rewrite rev_length, I1, Nat.sub_diag. cbn [nth]. apply S3. exact Hi.
    + rewrite app_nth1 by (rewrite rev_length; lia). apply I2; lia.
Qed.

(* ------------------------------------------------------------------ *)
(* quick_prob on any matrix with staircase support                      *)

(* arr is n x n and its entry (i,c) is non-zero exactly for c < k i *)
Definition stair_support (n : nat) (k : nat -> nat) (arr : matrix) : Prop :=
  length arr = n /\ Forall (fun r => length r = n) arr /\
  forall i c, (i < n)%nat -> (c < n)%nat -> (mget arr i c == 0 <-> (k i <= c)%nat).

Lemma qnth_col : forall (arr : matrix) c i, (i < length arr)%nat -> qnth (col c arr) i = mget arr i c.
Proof.
  intros arr c i Hi. unfold col, mget, rownth, qnth at 1.
  rewrite (nth_indep _ 0 ((fun r : list Q => qnth r c) [])) by (rewrite map_length; exact Hi).
  apply (map_nth (fun r : list Q => qnth r c)).
Qed.

Lemma ind01_support : forall n k arr i c, stair_support n k arr -> (i < n)%nat -> (c < n)%nat ->
  ind01 (mget arr i c) = sW k i c.
Proof.
  intros n k arr i c (_ & _ & H) Hi Hc. specialize (H i c Hi Hc). unfold ind01, sW.
  destruct (Qeq_bool (mget arr i c) 0) eqn:E; destruct (Nat.ltb_spec c (k i)) as [L | L]; try reflexivity.
  - apply Qeq_bool_iff in E. apply H in E. lia.
  - apply H in L. apply Qeq_bool_iff in L. congruence.
Qed.

Lemma mget_of_columns : forall n (es : list (list Q)) i j, (i < n)%nat -> (j < length es)%nat ->
  mget (of_columns n es) i j = qnth (nth j es []) i.
Proof.
  intros n es i j Hi Hj. unfold mget, of_columns, rownth.
  rewrite (nth_indep _ [] ((fun i0 => map (fun c => qnth c i0) es) 0%nat)) by (rewrite map_length, seq_length; exact Hi).
  rewrite (map_nth (fun i0 => map (fun c => qnth c i0) es) (seq 0 n) 0%nat i).
  rewrite seq_nth by exact Hi. cbn [plus]. unfold qnth at 1.
  rewrite (nth_indep _ 0 ((fun c => qnth c i) [])) by (rewrite map_length; exact Hj).
  apply (map_nth (fun c => qnth c i)).
Qed.

Theorem quick_prob_closed_form : forall n k arr,
  stair_support n k arr -> (forall c, (c < n)%nat -> 1 <= Dq n k c) ->
  forall i j, (i < n)%nat -> (j < n)%nat ->
  mget (quick_prob arr) i j == sW k i j * Tq n k i (S j) / Dq n k j.
Proof.
  intros n k arr Hsup HD1 i j Hi Hj.
  pose proof Hsup as (Hn & Hrows & Hent).
  assert (Hnc : ncols arr = n).
  { destruct arr as [|r arr]; [exact Hn|]. inversion Hrows; subst. cbn. assumption. }
  unfold quick_prob. rewrite Hnc, Hn. unfold columns.
  set (wm := map (map ind01) arr).
  assert (Hcols : forall c, (c < n)%nat ->
            length (col c wm) = n /\ forall i0, (i0 < n)%nat -> qnth (col c wm) i0 == sW k i0 c).
  { intros c Hc. split.
    - unfold col, wm. rewrite !map_length. exact Hn.
    - intros i0 Hi0. unfold wm. rewrite col_wm.
      rewrite qnth_map by (unfold col; rewrite map_length, Hn; exact Hi0).
      rewrite qnth_col by (rewrite Hn; exact Hi0).
      rewrite (ind01_support n k arr i0 c Hsup Hi0 Hc). reflexivity. }
  assert (Ht0 : forall i0, (i0 < n)%nat -> qnth (repeat 1 n) i0 == Tq n k i0 n).
  { intros i0 Hi0. unfold qnth. rewrite nth_repeat_lt by exact Hi0. symmetry. apply Tq_top. }
  destruct (quick_loop_closed_form n k HD1 (fun c => col c wm) n (repeat 1 n)
              (le_n n) (repeat_length 1 n) Ht0 Hcols) as [L1 L2].
  rewrite mget_of_columns by (rewrite ?rev_length, ?L1; assumption).
  apply L2; assumption.
Qed.

Lemma Pspec_ext : forall n M M' i j, (i < n)%nat -> (j < n)%nat ->
  (forall a b, (a < n)%nat -> (b < n)%nat -> M a b == M' a b) ->
  Pspec n M i j == Pspec n M' i j.
Proof.
  intros n M M' i j Hi Hj H. unfold Pspec.
  rewrite (H i j Hi Hj). rewrite (perm_ext n M M' H).
  assert (Hm : perm (pred n) (minor i j M) == perm (pred n) (minor i j M')).
  { apply perm_ext. intros a b Ha Hb. unfold minor. apply H; unfold skip; dtests; lia. }
  rewrite Hm. reflexivity.
Qed.

(* the algorithm equals the specification on the 0/1 matrix of the support *)
Theorem quick_prob_eq_Pspec_support : forall n k arr,
  stair_support n k arr -> (forall c, (c < n)%nat -> 1 <= Dq n k c) ->
  forall i j, (i < n)%nat -> (j < n)%nat ->
  mget (quick_prob arr) i j == Pspec n (sW k) i j.
Proof.
  intros n k arr Hsup HD1 i j Hi Hj.
  rewrite (quick_prob_closed_form n k arr Hsup HD1 i j Hi Hj).
  symmetry. apply Pspec_staircase_closed_form; try assumption.
  intros c Hc E. specialize (HD1 c Hc). lra.
Qed.

(* ------------------------------------------------------------------ *)
(* The hypothesis: D_c >= 1 for every column  <->  Hall's condition  <->  perm <> 0 *)

(* m_c: number of rows i < n with a one in column c *)
Fixpoint cnt (n : nat) (k : nat -> nat) (c : nat) : nat :=
  match n with
  | O => O
  | S n' => (cnt n' k c + (if (c <? k n')%nat then 1 else 0))%nat
  end.

Definition hall (n : nat) (k : nat -> nat) : Prop := forall c, (c < n)%nat -> (n <= cnt n k c + c)%nat.

Lemma csum_cnt : forall n k c, csum n k c == Qn (cnt n k c).
Proof.
  induction n as [|n IH]; intros k c; [reflexivity|].
  unfold csum in *. rewrite qsum_S, IH. cbn [cnt]. unfold sW.
  destruct (c <? k n)%nat.
  - rewrite Nat.add_1_r, Qn_S. reflexivity.
  - rewrite Nat.add_0_r. ring.
Qed.

Lemma cnt_le : forall n k c, (cnt n k c <= n)%nat.
Proof. induction n as [|n IH]; intros k c; cbn [cnt]; [lia|]. specialize (IH k c). destruct (c <? k n)%nat; lia. Qed.

Lemma cnt_antitone : forall n k c, (cnt n k (S c) <= cnt n k c)%nat.
Proof.
  induction n as [|n IH]; intros k c; cbn [cnt]; [lia|]. specialize (IH k c).
  destruct (Nat.ltb_spec (S c) (k n)); destruct (Nat.ltb_spec c (k n)); lia.
Qed.

Lemma Dq_Z : forall n k c,
  Dq n k c == inject_Z (Z.of_nat (cnt n k c) + Z.of_nat (S c) - Z.of_nat n).
Proof.
  intros n k c. unfold Dq. rewrite csum_cnt. unfold Qn, Zminus.
  rewrite !inject_Z_plus, inject_Z_opp. ring.
Qed.

Lemma Dq_ge1_iff : forall n k c, 1 <= Dq n k c <-> (n <= cnt n k c + c)%nat.
Proof.
  intros n k c. rewrite Dq_Z. change 1 with (inject_Z 1). rewrite <- Zle_Qle. lia.
Qed.

Lemma Dq_nz_iff : forall n k c, ~ Dq n k c == 0 <-> (cnt n k c + S c <> n)%nat.
Proof.
  intros n k c. rewrite Dq_Z. change 0 with (inject_Z 0). rewrite inject_Z_injective. lia.
Qed.

Lemma hall_of_nonzero : forall n k, (forall c, (c < n)%nat -> ~ Dq n k c == 0) -> hall n k.
Proof.
  intros n k H.
  assert (G : forall p c, (c + S p = n)%nat -> (n <= cnt n k c + c)%nat).
  { induction p as [|p IH]; intros c Hc.
    - assert (Hnz := H c ltac:(lia)). apply Dq_nz_iff in Hnz. lia.
    - assert (Hnz := H c ltac:(lia)). apply Dq_nz_iff in Hnz.
      specialize (IH (S c) ltac:(lia)). pose proof (cnt_antitone n k c). lia. }
  intros c Hc. apply (G (n - S c)%nat). lia.
Qed.

Theorem perm_staircase_nonzero_iff_hall : forall n k, ~ perm n (sW k) == 0 <-> hall n k.
Proof.
  intros n k. rewrite perm_staircase_product. split.
  - intros H. apply hall_of_nonzero. apply qprod_nonzero_all. exact H.
  - intros H E. assert (P : 0 < qprod n (Dq n k)).
    { apply qprod_pos. intros c Hc. assert (1 <= Dq n k c) by (apply Dq_ge1_iff; apply H; exact Hc). lra. }
    lra.
Qed.

Theorem perm_staircase_pos_iff_hall : forall n k, 0 < perm n (sW k) <-> hall n k.
Proof.
  intros n k. split.
  - intros H. apply perm_staircase_nonzero_iff_hall. lra.
  - intros H. rewrite perm_staircase_product. apply qprod_pos. intros c Hc.
    assert (1 <= Dq n k c) by (apply Dq_ge1_iff; apply H; exact Hc). lra.
Qed.

(* the column-zeros form of the hypothesis, as in quick_prob_doubly_stochastic *)
Lemma nzeros_ind01_sum : forall l,
  Qn (nzeros l) + qsum (length l) (fun i => ind01 (qnth l i)) == Qn (length l).
Proof.
  induction l as [|x l IH]; [reflexivity|].
  cbn [length]. rewrite qsum_shift. unfold nzeros in *. cbn [filter].
  change (qnth (x :: l) 0) with x.
  rewrite (qsum_ext (length l) (fun k => ind01 (qnth (x :: l) (S k))) (fun i => ind01 (qnth l i)))
    by (intros; reflexivity).
  rewrite Qn_S, <- IH. unfold ind01 at 1. destruct (Qeq_bool x 0).
  - cbn [length]. rewrite Qn_S. ring.
  - ring.
Qed.

Lemma nzeros_cnt : forall n k arr c, stair_support n k arr -> (c < n)%nat ->
  (nzeros (col c arr) + cnt n k c = n)%nat.
Proof.
  intros n k arr c Hsup Hc. pose proof Hsup as (Hn & _ & _).
  pose proof (nzeros_ind01_sum (col c arr)) as H.
  assert (Hl : length (col c arr) = n) by (unfold col; rewrite map_length; exact Hn).
  rewrite Hl in H.
  rewrite (qsum_ext n _ (fun i => sW k i c)) in H.
  - fold (csum n k c) in H. rewrite csum_cnt in H. unfold Qn in H.
    rewrite <- inject_Z_plus in H. rewrite inject_Z_injective in H. lia.
  - intros i Hi. rewrite qnth_col by (rewrite Hn; exact Hi).
    rewrite (ind01_support n k arr i c Hsup Hi Hc). reflexivity.
Qed.

Lemma hall_iff_nzeros : forall n k arr, stair_support n k arr ->
  (hall n k <-> forall c, (c < n)%nat -> (nzeros (col c arr) <= c)%nat).
Proof.
  intros n k arr Hsup. split; intros H c Hc; specialize (H c Hc);
    pose proof (nzeros_cnt n k arr c Hsup Hc); lia.
Qed.

(* ------------------------------------------------------------------ *)
(* The 0/1 staircase as a list of rows                                  *)

(* row r = k_r ones, then zeros up to length n (staircase / pad_row of proofs/PermQuickP.v) *)
Definition stair01 (n : nat) (ks : list nat) : matrix := staircase n (map (fun k => repeat 1 k) ks).
Definition kfun (ks : list nat) : nat -> nat := fun i => nth i ks O.

Lemma nth_repeat_same : forall {A} (x : A) n i, nth i (repeat x n) x = x.
Proof. intros A x. induction n as [|n IH]; intros i; destruct i; cbn; auto. Qed.

Lemma stair01_entry : forall n ks i c, (i < length ks)%nat ->
  mget (stair01 n ks) i c = sW (kfun ks) i c.
Proof.
  intros n ks i c Hi. unfold mget, rownth, stair01, staircase. rewrite map_map.
  rewrite (nth_indep _ [] ((fun k => pad_row n (repeat 1 k)) O)) by (rewrite map_length; exact Hi).
  rewrite (map_nth (fun k => pad_row n (repeat 1 k)) ks O i).
  unfold sW, kfun, qnth, pad_row. rewrite repeat_length.
  destruct (Nat.ltb_spec c (nth i ks O)) as [L | L].
  - rewrite app_nth1 by (rewrite repeat_length; exact L). apply nth_repeat_lt. exact L.
  - rewrite app_nth2 by (rewrite repeat_length; exact L). apply nth_repeat_same.
Qed.

Lemma stair01_support : forall n ks, length ks = n -> (forall k, In k ks -> (k <= n)%nat) ->
  stair_support n (kfun ks) (stair01 n ks).
Proof.
  intros n ks Hl Hk. split; [|split].
  - unfold stair01, staircase. rewrite !map_length. exact Hl.
  - unfold stair01, staircase. rewrite map_map. apply Forall_forall. intros r Hr.
    apply in_map_iff in Hr as (x & <- & Hx). unfold pad_row.
    rewrite app_length, !repeat_length. specialize (Hk x Hx). lia.
  - intros i c Hi Hc. rewrite stair01_entry by lia. unfold sW.
    destruct (Nat.ltb_spec c (kfun ks i)); split; intros H0; try lia; try reflexivity.
    discriminate H0.
Qed.

Lemma of_lists_stair01 : forall n ks a b, length ks = n -> (a < n)%nat ->
  of_lists (stair01 n ks) a b = sW (kfun ks) a b.
Proof. intros n ks a b Hl Ha. apply (stair01_entry n ks a b). lia. Qed.

(* (A) for the list form *)
Theorem perm_stair01_product : forall n ks, length ks = n ->
  perm n (of_lists (stair01 n ks)) == qprod n (Dq n (kfun ks)).
Proof.
  intros n ks Hl. rewrite <- perm_staircase_product. apply perm_ext.
  intros a b Ha Hb. rewrite (of_lists_stair01 n ks a b Hl Ha). reflexivity.
Qed.

(* perm <> 0  <->  column c has at most c zeros (the hypothesis of quick_prob_doubly_stochastic)
                <->  at least n - c rows have a one in column c *)
Theorem perm_stair01_nonzero_iff : forall n ks, length ks = n -> (forall k, In k ks -> (k <= n)%nat) ->
  (~ perm n (of_lists (stair01 n ks)) == 0 <->
   forall c, (c < n)%nat -> (nzeros (col c (stair01 n ks)) <= c)%nat).
Proof.
  intros n ks Hl Hk.
  rewrite <- (hall_iff_nzeros n (kfun ks) (stair01 n ks) (stair01_support n ks Hl Hk)).
  rewrite <- perm_staircase_nonzero_iff_hall.
  assert (E : perm n (of_lists (stair01 n ks)) == perm n (sW (kfun ks))).
  { apply perm_ext. intros a b Ha Hb. rewrite (of_lists_stair01 n ks a b Hl Ha). reflexivity. }
  rewrite E. reflexivity.
Qed.

(* ------------------------------------------------------------------ *)
(* Main theorem: quick_prob = Pspec on every 0/1 staircase, every size, rows in any order *)

Theorem quick_prob_eq_Pspec_staircase01 : forall n ks,
  length ks = n -> (forall k, In k ks -> (k <= n)%nat) ->
  ~ perm n (of_lists (stair01 n ks)) == 0 ->
  forall i j, (i < n)%nat -> (j < n)%nat ->
  mget (quick_prob (stair01 n ks)) i j == Pspec n (of_lists (stair01 n ks)) i j.
Proof.
  intros n ks Hl Hk Hp i j Hi Hj.
  pose proof (stair01_support n ks Hl Hk) as Hsup.
  assert (Hh : hall n (kfun ks)).
  { apply (hall_iff_nzeros n (kfun ks) (stair01 n ks) Hsup).
    apply (perm_stair01_nonzero_iff n ks Hl Hk). exact Hp. }
  rewrite (quick_prob_eq_Pspec_support n (kfun ks) (stair01 n ks) Hsup).
  - apply Pspec_ext; try assumption. intros a b Ha Hb.
    rewrite (of_lists_stair01 n ks a b Hl Ha). reflexivity.
  - intros c Hc. apply Dq_ge1_iff. apply Hh. exact Hc.
  - exact Hi.
  - exact Hj.
Qed.

(* the same under the hypothesis of quick_prob_doubly_stochastic *)
Corollary quick_prob_eq_Pspec_staircase01_nzeros : forall n ks,
  length ks = n -> (forall k, In k ks -> (k <= n)%nat) ->
  (forall c, (c < n)%nat -> (nzeros (col c (stair01 n ks)) <= c)%nat) ->
  forall i j, (i < n)%nat -> (j < n)%nat ->
  mget (quick_prob (stair01 n ks)) i j == Pspec n (of_lists (stair01 n ks)) i j.
Proof.
  intros n ks Hl Hk Hz. apply quick_prob_eq_Pspec_staircase01; try assumption.
  apply (perm_stair01_nonzero_iff n ks Hl Hk). exact Hz.
Qed.

(* the hypotheses are satisfiable: n = 5, unsorted supports, perm = 16 *)
Example quick_prob_eq_Pspec_example :
  let ks := [5; 2; 4; 5; 3]%nat in
  length ks = 5%nat /\ (forall k, In k ks -> (k <= 5)%nat) /\
  perm 5 (of_lists (stair01 5 ks)) == 16 /\
  (forall i j, (i < 5)%nat -> (j < 5)%nat ->
     mget (quick_prob (stair01 5 ks)) i j == Pspec 5 (of_lists (stair01 5 ks)) i j) /\
  quick_prob (stair01 5 ks) =
    [[1 # 16; 1 # 16; 1 # 8; 1 # 4; 1 # 2]; [1 # 2; 1 # 2; 0; 0; 0]; [1 # 8; 1 # 8; 1 # 4; 1 # 2; 0];
     [1 # 16; 1 # 16; 1 # 8; 1 # 4; 1 # 2]; [1 # 4; 1 # 4; 1 # 2; 0; 0]].
Proof.
  cbv zeta. split; [reflexivity|]. split; [|split; [|split]].
  - intros k Hk. cbn in Hk. lia.
  - vm_compute. reflexivity.
  - apply quick_prob_eq_Pspec_staircase01; [reflexivity | intros k Hk; cbn in Hk; lia |].
    vm_compute. discriminate.
  - vm_compute. reflexivity.
Qed.

(* ------------------------------------------------------------------ *)
(* Weighted staircases with one weight per row (what inf_retis hands to quick_prob after its
   rows_equal_or_zero test): Pspec does not see the row weights, so quick_prob = Pspec there too *)

Lemma perm_scale_rows : forall n w M, perm n (fun a b => w a * M a b) == qprod n w * perm n M.
Proof.
  intros n w M.
  assert (G : forall m, (m <= n)%nat ->
            perm n (fun a b => if (a <? m)%nat then w a * M a b else M a b) == qprod m w * perm n M).
  { induction m as [|m IH]; intros Hm.
    - cbn [qprod]. rewrite Qmult_1_l. apply perm_ext. intros a b _ _. reflexivity.
    - rewrite qprod_S. rewrite <- Qmult_assoc, (Qmult_comm (w m)), Qmult_assoc. rewrite <- IH by lia.
      rewrite Qmult_comm. rewrite <- (perm_scale_row n _ m (w m)) by lia.
      apply perm_ext. intros a b Ha Hb. unfold scale_row.
      destruct (Nat.eqb_spec a m) as [E | NE].
      + subst a. destruct (Nat.ltb_spec m (S m)); [|lia]. destruct (Nat.ltb_spec m m); [lia|]. reflexivity.
      + destruct (Nat.ltb_spec a (S m)); destruct (Nat.ltb_spec a m); try lia; reflexivity. }
  rewrite <- (G n (le_n n)). apply perm_ext. intros a b Ha Hb.
  destruct (Nat.ltb_spec a n); [reflexivity | lia].
Qed.

Lemma qprod_skip_split : forall n w i, (i <= n)%nat ->
  qprod (S n) w == w i * qprod n (fun a => w (skip i a)).
Proof.
  intros n w i Hi. rewrite (qprod_skip n i w Hi).
  rewrite <- (qprod_single (S n) i (w i)) at 1 by lia. rewrite <- qprod_mult.
  apply qprod_ext. intros b Hb. destruct (Nat.eqb_spec b i) as [E | NE]; [subst b|]; ring.
Qed.

Lemma Pspec_scale_rows : forall n w M i j, (i < n)%nat -> (j < n)%nat ->
  (forall a, (a < n)%nat -> ~ w a == 0) -> ~ perm n M == 0 ->
  Pspec n (fun a b => w a * M a b) i j == Pspec n M i j.
Proof.
  intros n w M i j Hi Hj Hw Hp. destruct n as [|n]; [lia|].
  unfold Pspec. change (pred (S n)) with n.
  rewrite perm_scale_rows.
  change (minor i j (fun a b => w a * M a b))
    with (fun a b => (fun a0 => w (skip i a0)) a * minor i j M a b).
  rewrite perm_scale_rows. rewrite (qprod_skip_split n w i) by lia.
  field. split; [exact Hp|]. split.
  - apply qprod_nonzero. intros a Ha. apply Hw. unfold skip. dtests; lia.
  - apply Hw. exact Hi.
Qed.

Lemma cnt_full : forall n k c, cnt n k c = n -> forall i, (i < n)%nat -> (c < k i)%nat.
Proof.
  induction n as [|n IH]; intros k c H i Hi; [lia|].
  cbn [cnt] in H. pose proof (cnt_le n k c).
  destruct (Nat.ltb_spec c (k n)) as [L | L]; [|lia].
  destruct (Nat.eq_dec i n) as [E | NE]; [subst i; exact L|]. apply IH; lia.
Qed.

Theorem quick_prob_eq_Pspec_uniform_rows : forall n k (w : nat -> Q) arr,
  stair_support n k arr ->
  (forall i c, (i < n)%nat -> (c < n)%nat -> (c < k i)%nat -> mget arr i c == w i) ->
  (forall c, (c < n)%nat -> (nzeros (col c arr) <= c)%nat) ->
  forall i j, (i < n)%nat -> (j < n)%nat ->
  mget (quick_prob arr) i j == Pspec n (of_lists arr) i j.
Proof.
  intros n k w arr Hsup Hw Hz i j Hi Hj.
  assert (Hh : hall n k) by (apply (hall_iff_nzeros n k arr Hsup); exact Hz).
  assert (HD1 : forall c, (c < n)%nat -> 1 <= Dq n k c).
  { intros c Hc. apply Dq_ge1_iff. apply Hh. exact Hc. }
  rewrite (quick_prob_eq_Pspec_support n k arr Hsup HD1 i j Hi Hj).
  assert (Hk0 : forall a, (a < n)%nat -> (0 < k a)%nat).
  { intros a Ha. apply (cnt_full n k 0%nat); [|exact Ha].
    pose proof (Hh 0%nat ltac:(lia)). pose proof (cnt_le n k 0%nat). lia. }
  assert (Hwnz : forall a, (a < n)%nat -> ~ w a == 0).
  { intros a Ha E. destruct Hsup as (_ & _ & Hs).
    specialize (Hs a 0%nat Ha ltac:(lia)). specialize (Hk0 a Ha).
    rewrite (Hw a 0%nat Ha ltac:(lia) Hk0) in Hs. apply Hs in E. lia. }
  rewrite <- (Pspec_scale_rows n w (sW k) i j Hi Hj Hwnz)
    by (apply perm_staircase_nonzero_iff_hall; exact Hh).
  symmetry. apply Pspec_ext; try assumption. intros a b Ha Hb.
  change (of_lists arr a b) with (mget arr a b). unfold sW.
  destruct (Nat.ltb_spec b (k a)) as [L | L].
  - rewrite (Hw a b Ha Hb L). ring.
  - destruct Hsup as (_ & _ & Hs). apply (Hs a b Ha Hb) in L. rewrite L. ring.
Qed.

(* a weighted instance: n = 4, rows in arbitrary order, one weight per row *)
Example quick_prob_eq_Pspec_weighted_example :
  let arr := [[3; 3; 3; 3]; [1 # 2; 1 # 2; 0; 0]; [7; 7; 7; 0]; [2; 2; 2; 2]] in
  (forall i j, (i < 4)%nat -> (j < 4)%nat ->
     mget (quick_prob arr) i j == Pspec 4 (of_lists arr) i j) /\
  ~ perm 4 (of_lists arr) == 0.
Proof.
  cbv zeta. split; [|vm_compute; discriminate].
  apply (quick_prob_eq_Pspec_uniform_rows 4 (kfun [4; 2; 3; 4]%nat)
           (fun i => nth i [3; 1 # 2; 7; 2] 0)).
  - split; [reflexivity|]. split; [repeat constructor|].
    intros [|[|[|[|i]]]] [|[|[|[|c]]]] Hi Hc; try lia; vm_compute; split; intros H; try lia; try discriminate H; try reflexivity.
  - intros [|[|[|[|i]]]] [|[|[|[|c]]]] Hi Hc; try lia; vm_compute; intros H; try lia; reflexivity.
  - intros [|[|[|[|c]]]] Hc; try lia; vm_compute; lia.
Qed.

Print Assumptions quick_prob_eq_Pspec_staircase01.
Print Assumptions quick_prob_eq_Pspec_uniform_rows.
Print Assumptions perm_staircase_product.
Print Assumptions Pspec_staircase_closed_form.
Print Assumptions perm_stair01_nonzero_iff.
