(* Proofs about the engine-instance bookkeeping (assign_engines of engines/factory.py). *)
From Coq Require Import ZArith List Bool Lia.
Import ListNotations.
From Inf Require Import base.ListX model.RepexM proofs.RepexP.
Open Scope nat_scope.

(* who holds instance i of engine type e *)
Fixpoint holder (o : occ_t) (e i : nat) : option nat :=
  match o with
  | [] => None
  | (a, l) :: r => if a =? e then nth i l None else holder r e i
  end.

Fixpoint instances (o : occ_t) (e : nat) : nat :=
  match o with
  | [] => 0
  | (a, l) :: r => if a =? e then length l else instances r e
  end.

Lemma first_free_spec l : forall i k,
  first_free i l = Some k -> i <= k < i + length l /\ nth (k - i) l (Some 0) = None.
Proof.
  induction l as [|a l IH]; intros i k H; cbn in H; [discriminate|].
  destruct a as [p|].
  - apply IH in H as (A & B). cbn [length]. split; [lia|]. replace (k - i) with (S (k - S i)) by lia. exact B.
  - injection H as <-. cbn. rewrite Nat.sub_diag. split; [lia|reflexivity].
Qed.

Definition occupied (l : list (option nat)) : nat :=
  length (filter (fun x => match x with Some _ => true | None => false end) l).

Lemma first_free_total l i : occupied l < length l -> exists k, first_free i l = Some k.
Proof.
  revert i; induction l as [|a l IH]; intros i H; cbn in H; [lia|].
  destruct a as [p|]; cbn in *.
  - apply IH. unfold occupied in *. lia.
  - eauto.
Qed.

Lemma holder_free_pin o pin e i :
  holder (free_pin pin o) e i =
  match holder o e i with Some p => if p =? pin then None else Some p | None => None end.
Proof.
  induction o as [|[a l] r IH]; cbn; [reflexivity|].
  destruct (a =? e); [|exact IH]. clear IH.
  revert i; induction l as [|x l IHl]; intros [|i]; cbn; auto.
Qed.

Lemma occ_take_spec e pin o o' i :
  occ_take e pin o = (o', Some i) ->
  holder o e i = None /\ i < instances o e /\ holder o' e i = Some pin /\
  forall e' i', (e', i') <> (e, i) -> holder o' e' i' = holder o e' i'.
Proof.
  revert o' ; induction o as [|[a l] r IH]; intros o' H; cbn in H; [discriminate|].
  destruct (Nat.eqb_spec a e) as [->|Ne].
  - destruct (first_free 0 l) as [k|] eqn:F; [|discriminate]. injection H as <- <-.
    apply first_free_spec in F as (A & B). rewrite Nat.sub_0_r in B. cbn. rewrite Nat.eqb_refl.
    assert (Hk : k < length l) by lia.
    repeat split.
    + rewrite (nth_indep l None (Some 0)) by lia. exact B.
    + exact Hk.
    + rewrite nth_set_nth by lia. now rewrite Nat.eqb_refl.
    + intros e' i' Hne. destruct (Nat.eqb_spec e e') as [<-|]; [|reflexivity].
      rewrite nth_set_nth by lia. destruct (Nat.eqb_spec i' k) as [->|]; [congruence|reflexivity].
  - destruct (occ_take e pin r) as [r' x] eqn:T. injection H as <- ->.
    destruct (IH _ eq_refl) as (A & B & C & D). cbn.
    destruct (Nat.eqb_spec a e); [congruence|]. repeat split; auto.
    intros e' i' Hne. destruct (a =? e'); auto.
Qed.

(* an engine instance handed to a job was free; instances recorded for other pins are untouched *)
Theorem assign_one_exclusive o e pin o' i :
  occ_take e pin (free_pin pin o) = (o', Some i) ->
  (forall p, holder o e i = Some p -> p = pin) /\
  holder o' e i = Some pin /\
  forall e' i' p, p <> pin -> holder o e' i' = Some p -> holder o' e' i' = Some p.
Proof.
  intros H. destruct (occ_take_spec _ _ _ _ _ H) as (A & B & C & D).
  rewrite holder_free_pin in A. repeat split; auto.
  - intros p Hp. rewrite Hp in A. destruct (Nat.eqb_spec p pin); [auto|discriminate].
  - intros e' i' p Hp Hh.
    assert ((e', i') <> (e, i)).
    { intros E. injection E as -> ->. rewrite Hh in A.
      destruct (Nat.eqb_spec p pin); [contradiction|discriminate]. }
    rewrite D by assumption. rewrite holder_free_pin, Hh.
    destruct (Nat.eqb_spec p pin); [contradiction|reflexivity].
Qed.
