(* Glue, part 3: the block-wise path of REPEX_state.inf_retis (the
   for start, stop, direction in blocks  loop), every size.

   If the (start, stop, direction) triples handed to the loop are consecutive diagonal blocks
   of the sorted matrix S, S is block lower-triangular with respect to them (PermBlockP.v),
   perm S <> 0 and every block is "good" -
     1 x 1, or
     passes the rows_equal_or_zero test and is a staircase with one weight per row
       (handled by quick_prob, PermQuickSpecP.v), or
     fails the test, has at most 12 rows and no row with maximum 0
       (handled by permanent_prob, PermPermanentP.v; larger blocks go to the Monte-Carlo
        random_prob, which is outside the exactness claim) -
   then the loop fills the output with Pspec S (block_loop_Pspec), and inf_core returns Pspec of
   the unsorted matrix (inf_core_blocks).  Blocks with direction -1 are covered when they are
   1 x 1 (one [0-] ensemble, as in the reachable family). *)
From Coq Require Import ZArith QArith Qabs List Bool Arith Lia Setoid Morphisms Permutation.
From Inf Require Import spec.PermS model.PermM proofs.PermSpecP proofs.PermQuickP
  proofs.PermQuickSpecP proofs.PermGlynnP proofs.PermIdleP proofs.PermP proofs.PermPermanentP
  proofs.PermPermuteP proofs.PermBlockP proofs.PermFastP.
Import ListNotations.
Open Scope Q_scope.

(* ------------------------------------------------------------------ *)
(* upd, set_cols, set_block                                             *)

Lemma upd_length : forall {A} (l : list A) i v, length (upd l i v) = length l.
Proof.
  intros A. induction l as [|x l IH]; intros i v; [reflexivity|].
  destruct i; cbn; [reflexivity | f_equal; apply IH].
Qed.

Lemma upd_nth_eq : forall {A} (d : A) l i v, (i < length l)%nat -> nth i (upd l i v) d = v.
Proof.
  intros A d. induction l as [|x l IH]; intros i v Hi; [cbn in Hi; lia|].
  destruct i; cbn; [reflexivity | apply IH; cbn in Hi; lia].
Qed.

Lemma upd_nth_neq : forall {A} (d : A) l i j v, i <> j -> nth j (upd l i v) d = nth j l d.
Proof.
  intros A d. induction l as [|x l IH]; intros i j v Hij; [reflexivity|].
  destruct i; destruct j; cbn; try reflexivity; try lia. apply IH. lia.
Qed.

Lemma set_cols_spec : forall cols vals row,
  NoDup cols -> length vals = length cols -> (forall x, In x cols -> (x < length row)%nat) ->
  length (set_cols row cols vals) = length row /\
  forall c, qnth (set_cols row cols vals) c =
            if in_dec Nat.eq_dec c cols then qnth vals (index_of c cols) else qnth row c.
Proof.
  unfold set_cols. induction cols as [|x cs IH]; intros vals row Hnd Hl Hlt.
  - destruct vals; [|discriminate]. cbn. split; [reflexivity | intros; reflexivity].
  - destruct vals as [|v vs]; [discriminate|]. injection Hl as Hl. inversion Hnd as [|? ? Hx Hnd']; subst.
    cbn [combine fold_left fst snd].
    destruct (IH vs (upd row x v) Hnd' Hl) as [I1 I2].
    { intros y Hy. rewrite upd_length. apply Hlt. now right. }
    split; [rewrite I1; apply upd_length|].
    intros c. rewrite I2. cbn [index_of].
    destruct (in_dec Nat.eq_dec c cs) as [Hin | Hnin].
    + destruct (in_dec Nat.eq_dec c (x :: cs)) as [_ | N]; [|exfalso; apply N; now right].
      destruct (Nat.eqb_spec x c) as [E | NE]; [subst; contradiction | reflexivity].
    + destruct (Nat.eq_dec x c) as [E | NE].
      * subst c. destruct (in_dec Nat.eq_dec x (x :: cs)) as [_ | N]; [|exfalso; apply N; now left].
        rewrite Nat.eqb_refl. unfold qnth. apply upd_nth_eq. apply Hlt. now left.
      * destruct (in_dec Nat.eq_dec c (x :: cs)) as [[E | Hin] | _]; [contradiction | contradiction |].
        unfold qnth. apply upd_nth_neq. exact NE.
Qed.

Lemma index_of_seq : forall s n c, (s <= c < s + n)%nat -> index_of c (seq s n) = (c - s)%nat.
Proof.
  intros s n. revert s. induction n as [|n IH]; intros s c Hc; [lia|].
  cbn [seq index_of]. destruct (Nat.eqb_spec s c) as [E | NE]; [lia|].
  rewrite IH by lia. lia.
Qed.

(* writing an s x s table into the diagonal block [st, st+s) of a k x k matrix *)
Lemma set_block_spec : forall k (out : matrix) st s (temp : matrix),
  square k out -> (st + s <= k)%nat -> square s temp ->
  let out' := set_block out st (st + s) (seq st s) temp in
  square k out' /\
  forall r c, (r < k)%nat -> (c < k)%nat ->
    mget out' r c = if ((st <=? r) && (r <? st + s) && (st <=? c) && (c <? st + s))%nat
                    then mget temp (r - st) (c - st) else mget out r c.
Proof.
  intros k out st s temp [Hl Hr] Hk [Htl Htr] out'. unfold out', set_block.
  assert (Hrow : forall r, (r < k)%nat ->
     rownth (map (fun rr : nat * list Q => let '(r0, row) := rr in
                    if ((st <=? r0) && (r0 <? st + s))%nat
                    then set_cols row (seq st s) (rownth temp (r0 - st)) else row)
                 (combine (seq 0 (length out)) out)) r =
     if ((st <=? r) && (r <? st + s))%nat then set_cols (rownth out r) (seq st s) (rownth temp (r - st))
     else rownth out r).
  { intros r Hr0. unfold rownth at 1.
    set (f := fun rr : nat * list Q => let '(r0, row) := rr in
                    if ((st <=? r0) && (r0 <? st + s))%nat
                    then set_cols row (seq st s) (rownth temp (r0 - st)) else row).
    rewrite (nth_indep _ [] (f (O, []))) by (rewrite map_length, combine_length, seq_length, Hl; lia).
    rewrite (map_nth f). rewrite combine_nth by (rewrite seq_length; reflexivity).
    rewrite seq_nth by lia. cbn [plus]. unfold f. reflexivity. }
  assert (Hsc : forall r, (r < k)%nat -> (st <= r < st + s)%nat ->
     length (set_cols (rownth out r) (seq st s) (rownth temp (r - st))) = k /\
     forall c, qnth (set_cols (rownth out r) (seq st s) (rownth temp (r - st))) c =
       if in_dec Nat.eq_dec c (seq st s) then qnth (rownth temp (r - st)) (index_of c (seq st s))
       else qnth (rownth out r) c).
  { intros r Hr0 Hin.
    assert (Lr : length (rownth out r) = k).
    { rewrite Forall_forall in Hr. apply Hr. unfold rownth. apply nth_In. lia. }
    destruct (set_cols_spec (seq st s) (rownth temp (r - st)) (rownth out r)) as [S1 S2].
    - apply seq_NoDup.
    - rewrite seq_length. rewrite Forall_forall in Htr. apply Htr. unfold rownth. apply nth_In. lia.
    - intros x Hx. apply in_seq in Hx. lia.
    - split; [rewrite S1; exact Lr | exact S2]. }
  split.
  - split; [rewrite map_length, combine_length, seq_length, Hl; lia|].
    rewrite Forall_forall. intros row Hin. apply (In_nth _ _ []) in Hin as (r & Hr0 & <-).
    rewrite map_length, combine_length, seq_length, Hl, Nat.min_id in Hr0.
    match goal with |- length (nth r ?M []) = k => change (nth r M []) with (rownth M r) end.
    rewrite (Hrow r Hr0).
    destruct (Nat.leb_spec st r) as [L1 | L1]; destruct (Nat.ltb_spec r (st + s)) as [L2 | L2]; cbn [andb];
      try (rewrite Forall_forall in Hr; apply Hr; unfold rownth; apply nth_In; lia).
    apply (Hsc r Hr0). lia.
  - intros r c Hr0 Hc. unfold mget at 1. rewrite (Hrow r Hr0).
    destruct (Nat.leb_spec st r) as [L1 | L1]; destruct (Nat.ltb_spec r (st + s)) as [L2 | L2]; cbn [andb];
      try reflexivity.
    destruct (Hsc r Hr0 ltac:(lia)) as [_ S2]. rewrite S2.
    destruct (in_dec Nat.eq_dec c (seq st s)) as [Hin | Hnin].
    + apply in_seq in Hin. rewrite index_of_seq by lia.
      destruct (Nat.leb_spec st c); destruct (Nat.ltb_spec c (st + s)); try lia. reflexivity.
    + destruct (Nat.leb_spec st c); destruct (Nat.ltb_spec c (st + s)); cbn [andb]; try reflexivity.
      exfalso. apply Hnin. apply in_seq. lia.
Qed.

(* ------------------------------------------------------------------ *)
(* one iteration of the block loop                                      *)

Definition subarr_of (S : matrix) (st s : nat) : matrix :=
  map (fun row => map (qnth row) (seq st s)) (slice st (st + s) S).

Lemma subarr_spec : forall k (S : matrix) st s, square k S -> (st + s <= k)%nat ->
  square s (subarr_of S st s) /\
  forall a b, (a < s)%nat -> (b < s)%nat -> mget (subarr_of S st s) a b = mget S (st + a) (st + b).
Proof.
  intros k S st s [Hl Hr] Hk. unfold subarr_of, slice.
  replace (st + s - st)%nat with s by lia.
  assert (Ls : length (firstn s (skipn st S)) = s) by (rewrite firstn_length, skipn_length; lia).
  split.
  - split; [rewrite map_length; exact Ls|]. rewrite Forall_forall. intros r Hin.
    apply in_map_iff in Hin as (r0 & <- & _). rewrite map_length, seq_length. reflexivity.
  - intros a b Ha Hb. unfold mget at 1, rownth.
    rewrite (nth_indep _ [] ((fun row => map (qnth row) (seq st s)) [])) by (rewrite map_length, Ls; exact Ha).
    rewrite (map_nth (fun row => map (qnth row) (seq st s))).
    rewrite nth_firstn_lt by exact Ha. rewrite nth_skipn_plus.
    unfold qnth at 1. rewrite (nth_indep _ 0 (qnth (nth (st + a) S []) O)) by (rewrite map_length, seq_length; exact Hb).
    rewrite (map_nth (qnth (nth (st + a) S []))). rewrite seq_nth by exact Hb. reflexivity.
Qed.

Definition block_good (S : matrix) (st s : nat) : Prop :=
  s = 1%nat \/
  (rows_equal_or_zero (subarr_of S st s) 0 = true /\ exists kf w, ustair 0 s kf w (subarr_of S st s)) \/
  (rows_equal_or_zero (subarr_of S st s) 0 = false /\ (s <= 12)%nat /\
   Forall (fun row => ~ qmaxl row == 0) (subarr_of S st s)).

Lemma Pspec_1x1 : forall M, ~ perm 1 M == 0 -> Pspec 1 M 0 0 == 1.
Proof.
  intros M H. unfold Pspec. change (pred 1) with O. rewrite perm_S in *. cbn [qsum perm] in *.
  field. intros E. apply H. rewrite E. ring.
Qed.

Lemma map_skipn0 : forall (M : matrix), map (skipn 0) M = M.
Proof. intros M. rewrite <- (map_id M) at 2. apply map_ext. intros; reflexivity. Qed.

Lemma block_step_spec : forall rp k (S out : matrix) st s d,
  square k S -> square k out -> (st + s <= k)%nat -> (1 <= s)%nat -> (d = 1%Z \/ s = 1%nat) ->
  ~ perm s (sub st (of_lists S)) == 0 ->
  block_good S st s ->
  exists temp,
    block_step rp S (Some out) (st, (st + s)%nat, d) = Some (set_block out st (st + s) (seq st s) temp) /\
    square s temp /\
    forall a b, (a < s)%nat -> (b < s)%nat -> mget temp a b == Pspec s (sub st (of_lists S)) a b.
Proof.
  intros rp k S out st s d HsqS Hsqo Hk Hs Hd Hperm Hgood.
  destruct (subarr_spec k S st s HsqS Hk) as [Hsqa Hma].
  assert (Hext : forall a b, (a < s)%nat -> (b < s)%nat ->
            of_lists (subarr_of S st s) a b == sub st (of_lists S) a b).
  { intros a b Ha Hb. change (of_lists (subarr_of S st s) a b) with (mget (subarr_of S st s) a b).
    rewrite Hma by assumption. reflexivity. }
  assert (Hperm' : ~ perm s (of_lists (subarr_of S st s)) == 0).
  { rewrite (perm_ext s _ _ Hext). exact Hperm. }
  unfold block_step. replace (st + s - st)%nat with s by lia.
  assert (Ecols : (if (d =? -1)%Z then rev (seq st s) else seq st s) = seq st s).
  { destruct Hd as [-> | ->]; [reflexivity|]. destruct (d =? -1)%Z; reflexivity. }
  rewrite Ecols. fold (subarr_of S st s).
  assert (Ls : length (subarr_of S st s) = s) by apply Hsqa. rewrite Ls.
  destruct (Nat.eqb_spec s 1) as [E1 | N1].
  - subst s. exists [[1]]. split; [reflexivity|]. split; [split; [reflexivity | repeat constructor]|].
    intros a b Ha Hb. assert (a = O) by lia. assert (b = O) by lia. subst a b.
    rewrite Pspec_1x1 by exact Hperm. reflexivity.
  - destruct Hgood as [E | [[Ht (kf & w & Hu)] | [Ht [H12 Hmax]]]]; [contradiction | |].
    + rewrite Ht. exists (quick_prob (subarr_of S st s)). split; [reflexivity|].
      assert (Hh : hall s kf).
      { apply (ustair_hall 0 s kf w _ Hu). rewrite map_skipn0. exact Hperm'. }
      destruct (quick_prob_shape (subarr_of S st s)) as [Q1 Q2].
      split.
      * split; [rewrite Q1; exact Ls|].
        rewrite (ncols_len s s (subarr_of S st s) Hs Ls (proj2 Hsqa)) in Q2. exact Q2.
      * intros a b Ha Hb.
        rewrite (ustair_quick 0 s kf w _ Hu Hh a b Ha ltac:(lia)).
        cbn [Nat.ltb Nat.leb]. rewrite Nat.sub_0_r, map_skipn0.
        apply Pspec_ext; assumption.
    + rewrite Ht. destruct (Nat.leb_spec s 12) as [_ | L]; [|lia].
      destruct (permanent_prob_eq_Pspec s (subarr_of S st s) ltac:(lia) Hsqa Hmax Hperm')
        as (P & HP & HsqP & HE).
      rewrite HP. exists P. split; [reflexivity|]. split; [exact HsqP|].
      intros a b Ha Hb. rewrite (HE a b Ha Hb). apply Pspec_ext; assumption.
Qed.

(* ------------------------------------------------------------------ *)
(* the whole block loop                                                 *)

(* the list of (start, stop, direction) triples against the list of block sizes *)
Fixpoint wf_blocks (off : nat) (blocks : list (nat * nat * Z)) (bs : list nat) : Prop :=
  match blocks, bs with
  | [], [] => True
  | (st, en, d) :: rb, s :: rs =>
      st = off /\ en = (off + s)%nat /\ (1 <= s)%nat /\ (d = 1%Z \/ s = 1%nat) /\ wf_blocks (off + s) rb rs
  | _, _ => False
  end.

Fixpoint blocks_good (S : matrix) (off : nat) (bs : list nat) : Prop :=
  match bs with
  | [] => True
  | s :: r => block_good S off s /\ blocks_good S (off + s) r
  end.

(* expected contents after the loop: Pspec of the diagonal blocks, the old value elsewhere *)
Fixpoint Eblocks (bs : list nat) (off : nat) (W : mat) (dflt : nat -> nat -> Q) (r c : nat) : Q :=
  match bs with
  | [] => dflt r c
  | s :: rest =>
      if ((off <=? r) && (r <? off + s) && (off <=? c) && (c <? off + s))%nat
      then Pspec s (sub off W) (r - off) (c - off)
      else Eblocks rest (off + s) W dflt r c
  end.

Lemma Eblocks_below_r : forall bs off W d r c, (r < off)%nat -> Eblocks bs off W d r c = d r c.
Proof.
  induction bs as [|s rest IH]; intros off W d r c H; [reflexivity|]. cbn [Eblocks].
  destruct (Nat.leb_spec off r); [lia|]. cbn [andb]. apply IH. lia.
Qed.

Lemma Eblocks_below_c : forall bs off W d r c, (c < off)%nat -> Eblocks bs off W d r c = d r c.
Proof.
  induction bs as [|s rest IH]; intros off W d r c H; [reflexivity|]. cbn [Eblocks].
  destruct (Nat.leb_spec off c); [lia|]. rewrite !andb_false_r. cbn [andb]. apply IH. lia.
Qed.

Lemma Eblocks_dflt : forall bs off W d d' r c, d r c == d' r c ->
  Eblocks bs off W d r c == Eblocks bs off W d' r c.
Proof.
  induction bs as [|s rest IH]; intros off W d d' r c H; [exact H|]. cbn [Eblocks].
  destruct ((off <=? r) && (r <? off + s) && (off <=? c) && (c <? off + s))%nat; [reflexivity|].
  apply IH. exact H.
Qed.

Lemma Eblocks_zero_Pblocks : forall bs off W r c, (off <= r)%nat -> (off <= c)%nat ->
  Eblocks bs off W (fun _ _ => 0) r c = Pblocks bs off W r c.
Proof.
  induction bs as [|s rest IH]; intros off W r c Hr Hc; [reflexivity|]. cbn [Eblocks Pblocks].
  destruct (Nat.leb_spec off r); [|lia]. destruct (Nat.leb_spec off c); [|lia]. cbn [andb].
  destruct (Nat.ltb_spec r (off + s)) as [Lr | Lr]; destruct (Nat.ltb_spec c (off + s)) as [Lc | Lc]; cbn [andb].
  - reflexivity.
  - apply Eblocks_below_r. exact Lr.
  - apply Eblocks_below_c. exact Lc.
  - apply IH; assumption.
Qed.

Lemma blocks_fold_spec : forall rp k (S : matrix), square k S ->
  forall blocks bs off out,
  wf_blocks off blocks bs -> (off + total bs <= k)%nat -> square k out ->
  blocks_nz bs off (of_lists S) -> blocks_good S off bs ->
  exists out', fold_left (block_step rp S) blocks (Some out) = Some out' /\ square k out' /\
    forall r c, (r < k)%nat -> (c < k)%nat ->
      mget out' r c == Eblocks bs off (of_lists S) (mget out) r c.
Proof.
  intros rp k S HsqS. induction blocks as [|[[st en] d] rb IH]; intros bs off out Hwf Hk Hsqo Hnz Hgood.
  - destruct bs; [|destruct Hwf]. exists out. split; [reflexivity|]. split; [exact Hsqo|].
    intros r c _ _. reflexivity.
  - destruct bs as [|s rs]; [destruct Hwf|]. destruct Hwf as (-> & -> & Hs & Hd & Hwf).
    cbn [total fold_right] in Hk. fold (total rs) in Hk.
    destruct Hnz as [Hnz1 Hnz2]. destruct Hgood as [Hg1 Hg2].
    destruct (block_step_spec rp k S out off s d HsqS Hsqo ltac:(lia) Hs Hd Hnz1 Hg1) as (temp & Hstep & Hsqt & Ht).
    destruct (set_block_spec k out off s temp Hsqo ltac:(lia) Hsqt) as [Hsq1 H1].
    set (out1 := set_block out off (off + s) (seq off s) temp) in *.
    destruct (IH rs (off + s)%nat out1 Hwf ltac:(lia) Hsq1 Hnz2 Hg2) as (out' & Hfold & Hsq' & H').
    exists out'. split; [cbn [fold_left]; rewrite Hstep; exact Hfold|]. split; [exact Hsq'|].
    intros r c Hr Hc. rewrite (H' r c Hr Hc). cbn [Eblocks].
    destruct ((off <=? r) && (r <? off + s) && (off <=? c) && (c <? off + s))%nat eqn:E.
    + apply andb_true_iff in E as [E E4]. apply andb_true_iff in E as [E E3]. apply andb_true_iff in E as [E1 E2].
      apply Nat.ltb_lt in E2. rewrite Eblocks_below_r by exact E2.
      rewrite (H1 r c Hr Hc). rewrite E1, E3. apply Nat.ltb_lt in E2. rewrite E2, E4. cbn [andb].
      apply Nat.leb_le in E1. apply Nat.leb_le in E3. apply Nat.ltb_lt in E2. apply Nat.ltb_lt in E4.
      apply Ht; lia.
    + apply Eblocks_dflt. rewrite (H1 r c Hr Hc). rewrite E. reflexivity.
Qed.

Lemma mget_zeros : forall k r c, mget (repeat (repeat 0 k) k) r c = 0.
Proof.
  intros k r c. unfold mget, rownth, qnth.
  destruct (Nat.lt_ge_cases r k) as [L | L].
  - rewrite nth_repeat_lt by exact L. apply nth_repeat_same.
  - rewrite (nth_overflow (repeat (repeat 0 k) k) []) by (rewrite repeat_length; exact L). destruct c; reflexivity.
Qed.

Lemma square_zeros : forall k, square k (repeat (repeat 0 k) k).
Proof.
  intros k. split; [apply repeat_length|]. rewrite Forall_forall. intros r Hin.
  apply repeat_spec in Hin. subst. apply repeat_length.
Qed.

Lemma blocks_nz_of_perm : forall bs off W, ~ blockperm bs off W == 0 -> blocks_nz bs off W.
Proof.
  induction bs as [|s r IH]; intros off W H; [exact I|]. cbn [blockperm blocks_nz] in *. split.
  - intros E. apply H. rewrite E. ring.
  - apply IH. intros E. apply H. rewrite E. ring.
Qed.

(* the block loop on a block lower-triangular sorted matrix computes Pspec *)
Theorem block_loop_Pspec : forall rp k (S : matrix) blocks bs,
  square k S -> wf_blocks 0 blocks bs -> total bs = k ->
  blt bs 0 (of_lists S) -> blocks_good S 0 bs -> ~ perm k (of_lists S) == 0 ->
  exists out, fold_left (block_step rp S) blocks (Some (repeat (repeat 0 k) k)) = Some out /\
    square k out /\
    forall r c, (r < k)%nat -> (c < k)%nat -> mget out r c == Pspec k (of_lists S) r c.
Proof.
  intros rp k S blocks bs HsqS Hwf Ht Hblt Hgood Hperm.
  assert (Hnz : blocks_nz bs 0 (of_lists S)).
  { apply blocks_nz_of_perm. rewrite <- (perm_blocks bs (of_lists S) Hblt). rewrite Ht. exact Hperm. }
  destruct (blocks_fold_spec rp k S HsqS blocks bs 0 (repeat (repeat 0 k) k) Hwf ltac:(lia)
              (square_zeros k) Hnz Hgood) as (out & Hfold & Hsq & H).
  exists out. split; [exact Hfold|]. split; [exact Hsq|].
  intros r c Hr Hc. rewrite (H r c Hr Hc).
  rewrite (Eblocks_dflt bs 0 (of_lists S) _ (fun _ _ => 0) r c) by (rewrite mget_zeros; reflexivity).
  rewrite Eblocks_zero_Pblocks by lia. rewrite <- Ht. symmetry.
  apply Pspec_blocks; try assumption; lia.
Qed.

(* ------------------------------------------------------------------ *)
(* inf_core on the block-wise path                                      *)

Theorem inf_core_blocks : forall rp mi pi0 p q (U : matrix) blocks bs,
  (1 <= p + q)%nat -> square (p + q) U ->
  Permutation mi (seq 0 p) -> Permutation pi0 (seq 0 q) ->
  let Sm := map (rownth U) (mi ++ map (fun i => (i + p)%nat) pi0) in
  rows_equal_or_zero (firstn p Sm) (p - 1) &&
    (if (p + q <=? p)%nat then true else rows_equal_or_zero (skipn p Sm) p) = false ->
  find_blocks Sm p = FBlist blocks ->
  wf_blocks 0 blocks bs -> total bs = (p + q)%nat ->
  blt bs 0 (of_lists Sm) -> blocks_good Sm 0 bs ->
  ~ perm (p + q) (of_lists U) == 0 ->
  exists o, inf_core rp mi pi0 p U = Some o /\ square (p + q) o /\
            forall i j, (i < p + q)%nat -> (j < p + q)%nat ->
              mget o i j == Pspec (p + q) (of_lists U) i j.
Proof.
  intros rp mi pi0 p q U blocks bs Hn HsqU Hmi Hpi Sm Htest Hfb Hwf Ht Hblt Hgood Hperm.
  pose proof (sort_idx_Permutation p q mi pi0 Hmi Hpi) as HP.
  set (idx := mi ++ map (fun i => (i + p)%nat) pi0) in *.
  pose proof (square_sorted (p + q) U idx HsqU HP) as HsqS. fold Sm in HsqS.
  pose proof HsqU as [HlU HrU].
  assert (HpermS : ~ perm (p + q) (of_lists Sm) == 0).
  { unfold Sm. rewrite (perm_sorted (p + q) idx U HP). exact Hperm. }
  destruct (block_loop_Pspec rp (p + q) Sm blocks bs HsqS Hwf Ht Hblt Hgood HpermS) as (out & Hfold & HsqF & HF).
  unfold inf_core. cbv zeta. rewrite HlU.
  destruct (Nat.eqb_spec (p + q) 0) as [E | _]; [lia|].
  fold idx. fold Sm. rewrite Htest, Hfb, Hfold.
  set (o := unsort idx out).
  assert (Hso : square (p + q) o) by (apply square_unsort; assumption).
  assert (Ho : forall i j, (i < p + q)%nat -> (j < p + q)%nat ->
             mget o i j == Pspec (p + q) (of_lists U) i j).
  { apply unsort_Pspec; [exact HP | apply HsqF | exact HF]. }
  rewrite (checks_pass (p + q) o (of_lists U) Hso Ho Hperm).
  exists o. split; [reflexivity|]. split; assumption.
Qed.

Print Assumptions set_block_spec.
Print Assumptions block_step_spec.
Print Assumptions block_loop_Pspec.
Print Assumptions inf_core_blocks.
